#!/venv/bin/python
"""kf_add.py fixed <property> <commit> <id> <what failed>   |   kf_add.py known <property> <id> <classifier> <what>"""
import json, sys
p = '/verif/known_findings.json'
d = json.load(open(p))
if sys.argv[1] == 'fixed':
    _, _, prop, commit, fid, what = sys.argv
    d['findings'].append({'property': prop, 'id': fid, 'status': 'fixed', 'commit': commit, 'what': what,
                          'record': 'fixed: property=%s %s %s' % (prop, commit, what)})
else:
    _, _, prop, fid, classifier, what = sys.argv
    d['findings'].append({'property': prop, 'id': fid, 'status': 'known', 'classifier': classifier,
                          'classifier_args': {}, 'what': what})
json.dump(d, open(p, 'w'), indent=1, ensure_ascii=False)

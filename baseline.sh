#!/bin/bash
# Runs the repository's pinned test suite on a scratch COPY of the tdda tree (the suite
# rewrites tracked parquet files in place, so it is never run inside /repo) with the
# verification guard OFF, and compares the passes with BASELINE.json's stable_pass.
# usage: baseline.sh [repo-dir]     exit 0 iff every stable test passed
set -u
SRC="${1:-/repo}"
W="/var/tmp/vt-baseline-$$"
mkdir -p "$W"
trap 'rm -rf "$W"' EXIT
rsync -a --exclude .git "$SRC"/ "$W/repo"/
mkdir -p "$W/tmp"
cd "$W/repo"
unset TDDA_TDDA_VERIF
env -u TDDA_TDDA_VERIF -u PYTHONPATH TMPDIR="$W/tmp" TDDA_FAIL_DIR="$W/tmp" \
  /venv/bin/python -m pytest -ra -q -p no:cacheprovider --timeout=900 --continue-on-collection-errors \
  --junitxml="$W/junit.xml" >"$W/out.txt" 2>&1
tail -1 "$W/out.txt"
/venv/bin/python - "$W/junit.xml" <<'P'
import json, sys, xml.etree.ElementTree as ET
base = json.load(open('/root/.vp/BASELINE.json'))
stable = set(base['stable_pass'])
passed = set()
for tc in ET.parse(sys.argv[1]).getroot().iter('testcase'):
    name = '%s::%s' % (tc.get('classname'), tc.get('name'))
    if not any(ch.tag in ('failure', 'error', 'skipped') for ch in tc):
        passed.add(name)
missing = sorted(stable - passed)
print('baseline: %d/%d stable tests passed; %d other tests passed' % (len(stable & passed), len(stable), len(passed - stable)))
for m in missing[:20]:
    print('  NOT PASSING:', m)
sys.exit(1 if missing else 0)
P

#!/venv/bin/python
"""Regenerates MANIFEST.json from the check modules under vt/checks (run after adding a check)."""
import importlib
import json
import os
import sys

HERE = os.path.dirname(os.path.abspath(__file__))
sys.path[:0] = [HERE, os.path.join(HERE, '.deps')]
props = [json.loads(l) for l in open(os.path.join(HERE, 'properties.jsonl'))]
checks = []
na = []
for p in props:
    pid = p['id']
    path = os.path.join(HERE, 'vt', 'checks', pid.lower() + '.py')
    if not os.path.exists(path):
        na.append({'property_id': pid, 'reason': 'check not built yet in this round (runtime monitoring applies; see DESIGN.md section 3)'})
        continue
    src = open(path).read()
    ns = {}
    # module-level metadata only; avoid importing tdda here
    mod = importlib.import_module('vt.checks.' + pid.lower())
    checks.append({
        'property_id': pid,
        'quick_cmd': './check %s quick' % pid,
        'thorough_cmd': './check %s thorough' % pid,
        'evidence_file': 'evidence/%s.json' % pid,
        'replay_cmd_template': './check %s --replay {path}' % pid,
        'engine': 'vt',
        'level_claimed': {
            'category': 'exploration',
            'text': getattr(mod, 'LEVEL_TEXT', None) or (
                'Runtime monitoring: the real tdda code is run on generated hostile inputs while monitors '
                '(contracts on the real functions, file-system/PRNG/reach hooks) record events and an independent '
                'oracle decides each execution. Held on the executions listed in the evidence file, nothing more.'),
            'design_ref': 'DESIGN.md section 3, %s' % pid,
        },
        'level_note': getattr(mod, 'LEVEL_NOTE', None) or '; '.join(getattr(mod, 'ASSUMPTIONS', [])) or 'see DESIGN.md',
        'technique': getattr(mod, 'TECHNIQUE', None) or 'runtime monitoring: ' + (mod.__doc__ or '').strip().split('\n')[0],
    })
m = {
    'version': 1,
    'setup_cmd': './setup.sh',
    'hooks': {
        'guard': 'TDDA_TDDA_VERIF',
        'enable': 'export TDDA_TDDA_VERIF=1 (done by ./check); all monitors attach from outside, tdda is imported from the working tree in a fresh interpreter',
        'baseline_off_cmd': './baseline.sh',
        'source_commits': [],
        'add_only': True,
    },
    'engines': [{'name': 'vt', 'path': 'vt/', 'serves_properties': [c['property_id'] for c in checks],
                 'kind_free_text': 'python runtime-monitoring harness: sharded workloads, icontract contracts on real tdda functions, audit-hook FS monitor, PRNG monitor, sys.monitoring reach counters, fork-server for real CLI processes, independent oracles, mechanism-keyed known findings'}],
    'checks': checks,
    'not_applicable': na,
    'notes': 'Every check: exit 0 held / 1 VIOLATION / 2 inconclusive (deciding monitor unreached, watchdog). VERIF_SEED and VERIF_TIER honoured. known_findings.json lists recorded and fixed defects.',
}
json.dump(m, open(os.path.join(HERE, 'MANIFEST.json'), 'w'), indent=1)
print('MANIFEST.json: %d checks, %d not yet claimed' % (len(checks), len(na)))

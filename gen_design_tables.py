#!/venv/bin/python
"""Regenerate the generated tables of DESIGN.md (between <!-- BEGIN x --> / <!-- END x --> markers):
  fixes     section 5.1, from known_findings.json (status fixed)
  findings  section 5.2, from known_findings.json (status known)
  seeded    section 7,   from seeded/*/meta.json, mutants/ and selftest_results.json
"""
import glob
import json
import os
import re
import subprocess

HERE = os.path.dirname(os.path.abspath(__file__))


def short(text, n):
    text = re.sub(r'\s+', ' ', text).strip().replace('|', '/')
    return text if len(text) <= n else text[:n - 1].rstrip() + '…'


def fixes():
    k = json.load(open(os.path.join(HERE, 'known_findings.json')))
    rows = ['| property | id | commit | failing input / history |', '|---|---|---|---|']
    for e in k['findings']:
        if e['status'] != 'fixed':
            continue
        subj = subprocess.run(['git', '-C', os.environ.get('VT_REPO', '/repo'), 'log', '-1', '--format=%s', e['commit']],
                              stdout=subprocess.PIPE, universal_newlines=True).stdout.strip()
        subj = subj[5:] if subj.startswith('fix: ') else subj
        rows.append('| %s | %s | `%s` %s | %s |' % (e['property'], e['id'], e['commit'], subj.replace('|', '/'), e['what'].replace('|', '/')))
    return '\n'.join(rows)


def findings():
    k = json.load(open(os.path.join(HERE, 'known_findings.json')))
    out = []
    for e in k['findings']:
        if e['status'] == 'fixed':
            continue
        out.append('* **%s `%s`** — %s (classifier `%s`).' % (e['property'], e['id'], e['what'], e.get('classifier')))
    return '\n'.join(out)


def seed_summary(meta):
    t = meta['needs_to_manifest']
    lines = [l for l in t.splitlines() if l.strip()]
    title = lines[0].lstrip('# ').strip() if lines and lines[0].startswith('#') else ''
    title = re.sub(r'^C\d\d\s+(seeded change|seed)\s*(\(round \d\))?\s*:?\s*', '', title).strip()
    body = ' '.join(lines[1:]) if title or (lines and lines[0].startswith('#')) else ' '.join(lines)
    body = re.sub(r'^[-*]\s*\**(Change[sd]?|Changed)\**\s*:?\**\s*', '', body.strip())
    body = body.replace('`', '')
    if title and len(title) > 25:
        return short(title + ' — ' + body, 230)
    return short(body, 230)


def seeded():
    res = json.load(open(os.path.join(HERE, 'selftest_results.json')))
    rows = ['| change | what it does (abridged from the author\'s notes) | verdict of its property\'s quick check | first run | what was strengthened |',
            '|---|---|---|---|---|']
    for d in sorted(glob.glob(os.path.join(HERE, 'seeded', '*'))):
        mp = os.path.join(d, 'meta.json')
        if not os.path.exists(mp):
            continue
        m = json.load(open(mp))
        name = 'seeded/' + os.path.basename(d)
        r = res.get(name, {})
        first = 'not recorded' if 'initially_missed' not in m else ('missed' if m['initially_missed'] else 'caught')
        st = m.get('strengthening') or (short(str(m.get('initially_missed')), 200) if m.get('initially_missed') else '')
        rows.append('| `%s` | %s | %s (%s) | %s | %s |' % (os.path.basename(d), seed_summary(m), r.get('verdict', 'not run'), m['property'], first,
                                                       short(st, 260)))
    out = '\n'.join(rows)
    rows = ['| reverse-fix mutant | verdict of its property\'s quick check |', '|---|---|']
    for p in sorted(glob.glob(os.path.join(HERE, 'mutants', '*', '*.diff'))):
        prop = os.path.basename(os.path.dirname(p))
        name = 'mutants/%s/%s' % (prop, os.path.basename(p)[:-5])
        rows.append('| `%s` | %s (%s) |' % (name, res.get(name, {}).get('verdict', 'not run'), prop))
    return out + '\n\n' + '\n'.join(rows)


def main():
    p = os.path.join(HERE, 'DESIGN.md')
    s = open(p).read()
    for key, fn in (('fixes', fixes), ('findings', findings), ('seeded', seeded)):
        b, e = '<!-- BEGIN %s -->' % key, '<!-- END %s -->' % key
        if b in s and e in s:
            i, j = s.index(b) + len(b), s.index(e)
            s = s[:i] + '\n' + fn() + '\n' + s[j:]
    open(p, 'w').write(s)


if __name__ == '__main__':
    main()

#!/bin/bash
# Offline setup: put icontract + deal beside the repository's interpreter (no network).
cd "$(dirname "$0")"
if [ ! -d .deps/icontract ] || [ ! -d .deps/deal ]; then
  PIP_NO_INDEX=1 /venv/bin/pip install -q --no-index --find-links /opt/veriftools/wheels --target .deps icontract deal || exit 1
fi
PYTHONPATH=.deps /venv/bin/python -c "import icontract, deal; print('contracts ok', icontract.__version__)"

#!/bin/bash
# try_seed.sh <seeded-dir-name> [seed]: apply one seeded change to a scratch copy of /repo and run its property's quick check there
# (a light-weight companion of vt.selftest for use while another selftest is running; writes nothing under /verif but replays/)
set -u
name="$1"; seed="${2:-0}"
prop="${name%%-*}"
W="/var/tmp/vt-try-$$"
mkdir -p "$W"; trap 'rm -rf "$W"' EXIT
rsync -a --exclude .git /repo/ "$W/repo/"
( cd "$W/repo" && patch -p1 --no-backup-if-mismatch -s -i "/verif/seeded/$name/patch.diff" ) || { echo "$name: patch does not apply"; exit 3; }
out=$(cd /verif && VT_REPO="$W/repo" VT_EVIDENCE="$W/ev.json" VERIF_SEED="$seed" ./check "$prop" quick 2>&1)
rc=$?
if [ $rc -eq 1 ]; then echo "$name: CAUGHT  $(echo "$out" | grep -A2 'violation groups' | sed -n 2p | cut -c1-150)"; elif [ $rc -eq 0 ]; then echo "$name: MISSED"; else echo "$name: inconclusive ($rc)"; fi

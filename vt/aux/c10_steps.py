"""Executes one C10 history step by step, with M-FS around every single assertion.
Used in two ways: (a) run_history() called inside a forked child (API-driven regeneration
setting), (b) imported by c10_module.py, a real unittest module run through
ReferenceTestCase.main (argv-driven setting)."""
import json
import os

from vt.monitors import fsmon


def build_frame(rows, extra=()):
    """k, x, s from the rows; `extra` names further columns whose values are a function of k (dtypes a file format might not
    keep: nanosecond / second / timezone-aware timestamps, nullable integers, categoricals, float32, unsigned)."""
    import numpy as np
    import pandas as pd
    df = pd.DataFrame({'k': [r[0] for r in rows], 'x': [r[1] for r in rows], 's': pd.Series([r[2] for r in rows], dtype='str')})
    ks = [r[0] for r in rows]
    base = np.array(['2021-03-04T05:06:07'], dtype='datetime64[s]')[0]
    for e in extra:
        if e == 'dt_ns':
            df[e] = pd.Series(np.array([base + np.timedelta64(k, 'D') for k in ks], dtype='datetime64[ns]'))
        elif e == 'dt_us':
            df[e] = pd.Series(np.array([base + np.timedelta64(k, 'h') for k in ks], dtype='datetime64[us]'))
        elif e == 'dt_s':
            df[e] = pd.Series(np.array([base + np.timedelta64(k, 'm') for k in ks], dtype='datetime64[s]'))
        elif e == 'dt_tz':
            df[e] = pd.Series(np.array([base + np.timedelta64(k, 'D') for k in ks], dtype='datetime64[ns]')).dt.tz_localize('UTC')
        elif e == 'Int64':
            df[e] = pd.array([None if k % 3 == 1 else k * 7 for k in ks], dtype='Int64')
        elif e == 'cat':
            df[e] = pd.Categorical(['c%d' % (k % 2) for k in ks], categories=['c0', 'c1', 'unused'])
        elif e == 'float32':
            df[e] = np.array([k / 4.0 for k in ks], dtype='float32')
        elif e == 'uint8':
            df[e] = np.array([k % 200 for k in ks], dtype='uint8')
        elif e == 'bool':
            df[e] = [k % 2 == 0 for k in ks]
    return df


def write_bytes(path, data):
    with open(path, 'wb') as f:
        f.write(data)


def do_step(t, step, refdir, workdir):
    """t: object with the assert* methods.  Raises what the assertion raises."""
    a = step['assert']
    kind = step['kind']
    ref = step['ref'] if step.get('relative_ref') else os.path.join(refdir, step['ref'])
    kw = {} if kind == 'DEFAULT' else {'kind': kind}
    if a == 'string':
        t.assertStringCorrect(step['actual'], ref, **kw)
    elif a == 'textfile':
        p = os.path.join(workdir, step.get('actual_name') or ('actual_' + step['ref']))
        write_bytes(p, step['actual'].encode('utf-8'))
        t.assertTextFileCorrect(p, ref, **kw)
    elif a == 'textfiles':
        ps, rs = [], []
        for j, txt in enumerate(step['actuals']):
            p = os.path.join(workdir, 'actual_%d_%s' % (j, step['ref']))
            write_bytes(p, txt.encode('utf-8'))
            ps.append(p)
            r = '%d_%s' % (j, step['ref'])
            rs.append(r if step.get('relative_ref') else os.path.join(refdir, r))
        t.assertTextFilesCorrect(ps, rs, **kw)
    elif a == 'binary':
        p = os.path.join(workdir, 'actual_' + step['ref'])
        write_bytes(p, bytes.fromhex(step['actual_hex']))
        t.assertBinaryFileCorrect(p, ref, **kw)
    elif a in ('df_parquet', 'df_csv'):
        if step.get('actual_path'):
            ext = 'csv' if step['actual_path'] == 'source-csv' else 'parquet'
            p = os.path.join(workdir, 'source_%d.%s' % (step['i'] % 1000, ext))
            if step['actual_path'] != 'missing':
                src = build_frame([[r[0], r[1] + 1.0, r[2]] for r in step['rows']], ()).drop(columns=['s'])
                src.to_csv(p, index=False) if ext == 'csv' else src.to_parquet(p)
            kw['actual_path'] = p
        t.assertDataFrameCorrect(build_frame(step['rows'], step.get('extra', ())), ref, **kw)
    elif a == 'ondisk':
        p = os.path.join(workdir, 'actual_' + step['ref'])
        build_frame(step['rows'], step.get('extra', ())).to_parquet(p)
        t.assertOnDiskDataFrameCorrect(p, ref, **kw)
    else:
        raise ValueError(a)


def monitored_step(t, step, refdir, workdir, log):
    before = fsmon.snapshot(refdir)
    outcome = 'pass'
    detail = None
    with fsmon.watch() as w:
        try:
            do_step(t, step, refdir, workdir)
        except AssertionError as e:
            outcome = 'fail'
            detail = str(e)[:300]
        except BaseException as e:
            import traceback
            tb = traceback.extract_tb(e.__traceback__)
            loc = [f for f in tb if '/tdda/' in f.filename]
            outcome = 'raise'
            detail = '%s: %s @%s' % (type(e).__name__, str(e)[:200], ('%s:%s' % (os.path.basename(loc[-1].filename), loc[-1].name)) if loc else '?')
    after = fsmon.snapshot(refdir)
    d = fsmon.diff(before, after)
    ref_events = sorted(set(os.path.relpath(p, refdir) for p in w.written_paths()
                            if (os.path.abspath(p) + '/').startswith(os.path.abspath(refdir) + '/')))
    log.append({'i': step['i'], 'outcome': outcome, 'detail': detail, 'diff': d, 'ref_events': ref_events, 'pid': os.getpid()})
    return outcome


def run_history(hist, refdir, workdir, logpath, setting):
    """API-driven: apply the regeneration setting with set_regeneration, then run the steps."""
    from tdda.referencetest.referencetest import ReferenceTest
    ReferenceTest.set_defaults(verbose=False)
    if hist.get('data_location'):
        ReferenceTest.set_default_data_location(refdir)
    if setting['mode'] == 'all':
        ReferenceTest.set_regeneration()
    elif setting['mode'] == 'kinds':
        for k in setting['kinds']:
            ReferenceTest.set_regeneration(k)

    def assert_fn(ok, msg):
        if not ok:
            raise AssertionError(msg)
    t = ReferenceTest(assert_fn)
    log = []
    for step in hist['steps']:
        monitored_step(t, step, refdir, workdir, log)
        if step.get('then_switch_off'):
            # same process, regeneration switched off again: the same assertion must now pass
            for k in list(ReferenceTest.regenerate):
                ReferenceTest.set_regeneration(k, False)
            s2 = dict(step, i=step['i'] + 1000)
            monitored_step(t, s2, refdir, workdir, log)
            if setting['mode'] == 'all':
                ReferenceTest.set_regeneration()
            elif setting['mode'] == 'kinds':
                for k in setting['kinds']:
                    ReferenceTest.set_regeneration(k)
    with open(logpath, 'w') as f:
        json.dump(log, f)
    return 0

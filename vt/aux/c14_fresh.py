"""One seeded extraction in a FRESH interpreter (its own hash salt): prints the expressions as JSON.
usage: python -m vt.aux.c14_fresh case.json"""
import json
import sys

from vt.gens import rexcases as RC


def main():
    case = json.load(open(sys.argv[1]))
    case['prng'] = None
    print(json.dumps(RC.rex_of(RC.run_extractor(case))))


if __name__ == '__main__':
    main()

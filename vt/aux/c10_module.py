"""A real reference-test module: one test per history step (read from $VT_HIST), run through
ReferenceTestCase.main() so that the regeneration setting comes from the command line."""
import atexit
import json
import os

from tdda.referencetest import ReferenceTestCase, tag
from vt.aux import c10_steps

HIST = json.load(open(os.environ['VT_HIST']))
REFDIR, WORKDIR, LOGPATH = os.environ['VT_REFDIR'], os.environ['VT_WORKDIR'], os.environ['VT_STEPLOG']
LOG = []


def _flush():
    with open(LOGPATH, 'w') as f:
        json.dump(LOG, f)


atexit.register(_flush)


@tag
class TestHistory(ReferenceTestCase):
    pass


def _make(step):
    def test(self):
        out = c10_steps.monitored_step(self, step, REFDIR, WORKDIR, LOG)
        _flush()
        if out != 'pass':
            self.fail('step outcome: %s' % out)
    return test


for _s in HIST['steps']:
    setattr(TestHistory, 'test_%03d' % _s['i'], _make(_s))
if HIST.get('data_location'):
    TestHistory.set_default_data_location(REFDIR)

if __name__ == '__main__':
    ReferenceTestCase.main()

"""Audit of the contracts: the repository's own pinned test suite is run (on a scratch copy - it rewrites
tracked files) with every contract of vt.monitors.contracts attached to the real functions.

A contract that fires there is either too strict (a false alarm waiting to happen in a workload) or a defect
the tests do not assert; the set of passing tests must not shrink (contracts only record, they never raise).

usage: ./check --suite-under-contracts          (cwd /verif; exit 0 = silent on N evaluations)
"""
import collections
import json
import os
import shutil
import subprocess
import sys


def child():
    from vt.monitors import contracts
    contracts.attach('rexpy', 'rexcoverage', 'textcmp', 'csvwdate')
    import pytest
    rc = pytest.main(['-q', '-p', 'no:cacheprovider', '--no-header', '-W', 'ignore', '--junitxml', os.environ['VT_JUNIT'], 'tdda/test_tdda.py'])
    sink = contracts.drain()
    json.dump({'rc': int(rc), 'evals': dict(contracts.EVALS), 'broken': sink[:50], 'n_broken': len(sink)},
              open(os.environ['VT_SUITE_OUT'], 'w'), default=str)


def main():
    repo = os.environ.get('VT_REPO', '/repo')
    work = os.path.join(os.environ.get('VT_SCRATCH', '/var/tmp/vt-suite-%d' % os.getpid()), 'suite')
    shutil.rmtree(work, ignore_errors=True)
    os.makedirs(os.path.join(work, 'tmp'))
    try:
        subprocess.run(['rsync', '-a', '--exclude', '.git', repo + '/', work + '/repo/'], check=True)
        out = os.path.join(work, 'out.json')
        env = dict(os.environ, TMPDIR=os.path.join(work, 'tmp'), TDDA_FAIL_DIR=os.path.join(work, 'tmp'), VT_SUITE_OUT=out,
                   VT_JUNIT=os.path.join(work, 'junit.xml'),
                   PYTHONPATH=os.pathsep.join([work + '/repo'] + [p for p in os.environ.get('PYTHONPATH', '').split(os.pathsep) if p and p != repo]))
        env.pop('TDDA_TDDA_VERIF', None)
        p = subprocess.run([sys.executable, '-W', 'ignore', '-c', 'from vt.aux import suite_under_contracts as s; s.child()'],
                           cwd=work + '/repo', env=env, stdout=subprocess.PIPE, stderr=subprocess.STDOUT, universal_newlines=True, timeout=1800)
        if not os.path.exists(out):
            print(p.stdout[-2000:])
            print('INCONCLUSIVE: the suite did not finish under contracts')
            return 2
        r = json.load(open(out))
        import xml.etree.ElementTree as ET
        passed = set()
        for tc in ET.parse(os.path.join(work, 'junit.xml')).getroot().iter('testcase'):
            if not any(ch.tag in ('failure', 'error', 'skipped') for ch in tc):
                passed.add('%s::%s' % (tc.get('classname'), tc.get('name')))
        stable = set(json.load(open('/root/.vp/BASELINE.json'))['stable_pass'])
        print('suite under contracts: %d tests passed (%d of the %d stable ones); contract evaluations: %s'
              % (len(passed), len(passed & stable), len(stable), json.dumps(r['evals'], sort_keys=True)))
        bad = 0
        if stable - passed:
            print('  stable tests no longer passing with contracts attached:', sorted(stable - passed)[:10])
            bad = 1
        if r['n_broken']:
            print('  %d broken-contract records:' % r['n_broken'], collections.Counter(b['contract'] for b in r['broken']))
            for b in r['broken'][:8]:
                print('   ', json.dumps(b)[:500])
            bad = 1
        if sum(r['evals'].values()) == 0:
            print('INCONCLUSIVE: no contract was evaluated')
            return 2
        return bad
    finally:
        shutil.rmtree(work, ignore_errors=True)


if __name__ == '__main__':
    sys.exit(main())

"""One pytest test function per history step (read from $VT_HIST); the regeneration setting comes
from pytest's command line (--write-all / --write kinds) through tdda's pytest plugin."""
import json
import os

from vt.aux import c10_steps

HIST = json.load(open(os.environ['VT_HIST']))
REFDIR, WORKDIR, LOGPATH = os.environ['VT_REFDIR'], os.environ['VT_WORKDIR'], os.environ['VT_STEPLOG']
LOG = []


def _make(step):
    def test(ref):
        if HIST.get('data_location'):
            ref.set_data_location(REFDIR)
        out = c10_steps.monitored_step(ref, step, REFDIR, WORKDIR, LOG)
        with open(LOGPATH, 'w') as f:
            json.dump(LOG, f)
        assert out == 'pass', 'step outcome: %s' % out
    return test


for _s in HIST['steps']:
    globals()['test_%03d' % _s['i']] = _make(_s)

# conftest of the pytest-driven C10/C19 workloads: the documented boilerplate, nothing else
from tdda.referencetest.pytestconfig import *   # noqa: F401,F403

"""C18 — coverage figures are exact and account for all examples.

Deciding monitors: icontract post-conditions on the real rex_coverage and
matrices2incremental_coverage (the latter replays the greedy credit assignment on a
snapshot of the real coverage matrix, so "each example credited to exactly one
expression" is checked on the intermediate state) + a harness oracle that recounts
everything from the raw input with Python's re.
"""
import collections

from vt import common
from vt.gens import rexcases as RC
from vt.monitors import contracts
from vt.oracles import rexmatch as O

ID = 'C18'
TIERS = {
    'quick': dict(shards=16, cases=1200, watchdog_s=900),
    'thorough': dict(shards=16, cases=40000, big=1, watchdog_s=6000),
}
RULE = ('cases = multisets with repeats (lists and frequency dicts) x dedup on/off x all extraction options '
        'incl. pruning and sampling sizes; each case queries coverage, incremental_coverage, '
        'full_incremental_coverage and n_examples for dedup False and True. Non-trivial = at least two distinct '
        'surviving examples, at least one repeat or two expressions.')
ASSUMPTIONS = [
    "'sum to the total number of examples' is demanded when no pruning option (max_patterns / min_strings_per_pattern) is in force; with pruning only the accounting identity sum = number of examples matched by some expression",
    'the number supplied = number of non-null examples after the explicit discards (empties when removed), repeats counted unless dedup',
]
REQUIRED_MONITORS = ['oracle:c18', 'examples:given_by_check_function', 'contract:rex_coverage', 'contract:matrices2incremental_coverage']
REQUIRED_CLASSES = ['form=list', 'form=dict', 'form=callable', 'pruning=0', 'pruning=1', 'repeats=1', 'sampling=1']

_installed = False


def install():
    global _installed
    if not _installed:
        _installed = True
        contracts.attach('rexpy', 'rexcoverage')


def flush(rec):
    for k, v in contracts.EVALS.items():
        rec.event('contract:' + k, v)
    contracts.EVALS.clear()


def run_with_check_function(case, freq, supplied):
    """The documented function form of the examples argument (rexpy.example_check_function): rexpy asks the function which
    strings the expressions so far fail to match, at most maxN at a time; every string handed over carries its frequency."""
    import contextlib
    import io
    import random
    import re
    from tdda.rexpy import rexpy
    order = sorted(freq)

    def check(rexes, maxN=None):
        comp = [re.compile(r, re.U | re.S) for r in rexes]
        fails, counts = [], [0] * len(rexes)
        for t in order:
            for k, c in enumerate(comp):
                if c.fullmatch(t):
                    counts[k] += freq[t]
                    break
            else:
                fails.append(t)
        if maxN is not None:
            fails = fails[:maxN]
        for t in fails:
            supplied[t] = freq[t]
        return rexpy.Examples(fails, [freq[t] for t in fails]), counts
    if case.get('prng') is not None:
        random.seed(case['prng'])
    with contextlib.redirect_stdout(io.StringIO()):
        return rexpy.Extractor(check, size=RC.make_size(case), seed=case['seed'], **case['kw'])


def run_case(ctx, case):
    rec = ctx.rec
    install()
    kw = case['kw']
    targets = O.targets_of(case['xs'], kw['strip'], kw['remove_empties'])
    freq = collections.Counter(targets)
    pruning = 'max_patterns' in kw or kw.get('min_strings_per_pattern', 1) > 1
    eff = RC.effective_sampling(case)
    repeats = any(n > 1 for n in freq.values())
    supplied = {}
    try:
        if case['form'] == 'callable':
            x = run_with_check_function(case, freq, supplied)
            rec.event('examples:given_by_check_function')
            if len(supplied) < len(freq):
                rec.note('check function: not every string had to be handed over')
            freq = collections.Counter(supplied)       # the examples supplied are the ones the function handed over
            targets = list(freq.elements())
        else:
            x = RC.run_extractor(case)
    except Exception as e:
        contracts.drain()
        m = common.short_tb(e)
        rec.violation('raises', {'case': case, 'mech': {'exc': m['exc'], 'where': m['where']}, 'facts': m})
        return
    contracts.drain()   # extraction contracts belong to C03/C13
    rex = RC.rex_of(x)
    rec.case(case, nontrivial=len(freq) >= 2 and (repeats or len(rex) >= 2),
             cls=[('form=' + case['form'],), ('pruning=%d' % pruning,), ('repeats=%d' % repeats,),
                  ('sampling=%d' % eff,), ('dialect=' + kw['dialect'],), ('nrex=%d' % min(len(rex), 5),)])
    if x.results is None:
        if targets:
            rec.violation('no_results', {'case': case, 'mech': {}, 'facts': {'n_targets': len(targets)}})
        return
    comp, err = O.compile_all(rex)
    if comp is None:
        return                           # C13's business
    rec.event('oracle:c18')
    mech = {'dialect': kw['dialect'], 'sampling': eff, 'pruning': pruning}
    for dedup in (False, True):
        total = len(freq) if dedup else sum(freq.values())
        try:
            n_ex = x.n_examples(dedup=dedup)
            cov = x.coverage(dedup=dedup)
            inc = x.incremental_coverage(dedup=dedup)
            full = x.full_incremental_coverage(dedup=dedup)
        except Exception as e:
            m = common.short_tb(e)
            rec.violation('raises', {'case': case, 'mech': {'exc': m['exc'], 'where': m['where']}, 'facts': m})
            return
        for b in contracts.drain():
            rec.violation('contract:' + b['contract'], {'case': case, 'mech': dict(mech, contract=b['contract']),
                                                         'facts': b['facts']})
        if n_ex != total:
            rec.violation('n_examples', {'case': case, 'mech': dict(mech, dedup=dedup),
                                         'facts': {'reported': n_ex, 'supplied': total}})
        want = [sum((1 if dedup else n) for t, n in freq.items() if c.match(t)) for c in comp]
        if list(cov) != want:
            rec.violation('coverage', {'case': case, 'mech': dict(mech, dedup=dedup),
                                       'facts': {'reported': list(cov), 'true': want, 'rex': rex[:8]}})
        vals = list(inc.values())
        if any(vals[i] < vals[i + 1] for i in range(len(vals) - 1)):
            rec.violation('incr_order', {'case': case, 'mech': dict(mech, dedup=dedup), 'facts': {'values': vals}})
        matched = sum((1 if dedup else n) for t, n in freq.items() if any(c.match(t) for c in comp))
        if sum(vals) != matched:
            rec.violation('incr_sum', {'case': case, 'mech': dict(mech, dedup=dedup),
                                       'facts': {'sum': sum(vals), 'matched_by_some': matched, 'total': total}})
        elif not pruning and sum(vals) != total:
            rec.violation('incr_sum_total', {'case': case, 'mech': dict(mech, dedup=dedup),
                                             'facts': {'sum': sum(vals), 'total': total}})
        if len(inc) < len(set(rex)):
            # zero-credit expressions are left out of the listing; the property does not
            # demand that every expression be listed, so this is only recorded
            rec.note('incremental coverage omits expressions that explain nothing new')
        if not set(inc.keys()) <= set(rex):
            rec.violation('incr_keys', {'case': case, 'mech': dict(mech, dedup=dedup),
                                        'facts': {'keys': list(inc.keys())[:6], 'rex': rex[:6]}})
        # credit: replay greedy order with re
        left = dict(freq)
        for r, v in inc.items():
            try:
                c = comp[rex.index(r)]
            except ValueError:
                break
            newly = [t for t in left if c.match(t)]
            got = sum((1 if dedup else left[t]) for t in newly)
            if got != v:
                rec.violation('incr_credit', {'case': case, 'mech': dict(mech, dedup=dedup),
                                              'facts': {'rex': r, 'reported': v, 'recount': got}})
                break
            for t in newly:
                del left[t]
        fvals = [(c_.incr_uniq if dedup else c_.incr) for c_ in full.values()]
        if fvals != vals or list(full.keys()) != list(inc.keys()):
            rec.violation('full_vs_incr', {'case': case, 'mech': dict(mech, dedup=dedup),
                                           'facts': {'full': fvals, 'incr': vals}})
        for r, c_ in full.items():
            if r in rex:
                k = rex.index(r)
                wn = sum(n for t, n in freq.items() if comp[k].match(t))
                wu = sum(1 for t in freq if comp[k].match(t))
                if (c_.n, c_.n_uniq) != (wn, wu) or c_.index != k and rex.count(r) == 1:
                    rec.violation('full_totals', {'case': case, 'mech': dict(mech, dedup=dedup),
                                                  'facts': {'rex': r, 'reported': [c_.n, c_.n_uniq, c_.index], 'true': [wn, wu, k]}})
                    break


def run_shard(ctx):
    n = ctx.params['cases']
    for i in range(n):
        case = RC.gen_case(ctx.rng, None, pruning=(i % 3 == 0))
        if case['form'] in RC.SERIES_FORMS or case['form'].startswith('streams-'):
            case['form'] = 'list' if i % 2 else 'dict'
        if i % 9 == 5 and all(x is not None and not x.startswith('\ufeff') for x in case['xs']):
            case['form'] = ['extract-bytes-sig-list', 'extract-bytes-list', 'extract-bytes-dict', 'extract-dict'][(i // 9) % 4]
        if i % 4 == 1 and case['xs']:
            for _ in range(ctx.rng.randint(1, 6)):       # heavy repeats
                case['xs'].append(ctx.rng.choice(case['xs']))
        if i % 7 == 3 and not (i % 3 == 0):
            # the same strings handed over by a check function, a few at a time (small do_all / do_all_exceptions), with frequencies
            case['form'] = 'callable'
            case['xs'] = [x_ for x_ in case['xs'] if x_ is not None]
            case['kw'] = dict(case['kw'], strip=False, remove_empties=False)
            sz = dict(case['size']) if isinstance(case['size'], dict) else {}
            sz.update(do_all=ctx.rng.choice([2, 4, 5, 100]), do_all_exceptions=ctx.rng.choice([2, 4, 5]))
            sz.pop('use_sampling', None)
            case['size'] = sz
        run_case(ctx, case)
    if ctx.params.get('big'):
        from vt.checks import c03
        run_case(ctx, c03.big_case(ctx.rng, 4300))
    flush(ctx.rec)

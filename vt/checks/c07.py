"""C07 — discovery reports the exact statistics of the data (constraints are tight).

Every discovered constraint set (pandas frames and SQLite tables) is compared, kind by kind,
with statistics recomputed in plain Python from the very values the frame/table was built
from.  M-REACH counts the calc_* calls and, for SQLite, a trace callback records every SQL
statement tdda issued.
"""
import collections
import contextlib
import io

from vt import common
from vt.gens import frames as F
from vt.gens import tables as T
from vt.monitors import reach
from vt.oracles import constraint_semantics as CS

ID = 'C07'
TIERS = {
    'quick': dict(shards=16, cases=2000, watchdog_s=900),
    'thorough': dict(shards=16, cases=60000, watchdog_s=7000),
}
RULE = ('case = one generated pandas frame (25 recognised column kinds, any null pattern, 0-60 rows, 1-25 distinct '
        'strings around the 20-category threshold) or one SQLite table (integer/real/text/varchar/boolean/datetime '
        'columns); every discovered field is compared with independently recomputed statistics. Non-trivial = '
        'a field with at least one non-null value; distinct = fingerprint of the column specs.')
ASSUMPTIONS = [
    'unspecified: ordering inside allowed_values; bool bounds as 0/1 vs false/true in SQLite; -0.0 vs 0.0; sign of an all-null numeric field; type of an all-null object column',
    'rex constraints are not part of this property (C01/C03/C08)',
]
REQUIRED_MONITORS = ['fields:compared', 'backend:pandas', 'backend:sqlite', 'sql:statements', 'reach:calc_min',
                     'reach:calc_nunique']
REQUIRED_CLASSES = ['kind=%s' % k for k in F.RECOGNISED] + ['sqltype=%s' % s for s in T.SQLTYPES] + \
    ['rows=0', 'nulls=all', 'ndistinct=20', 'ndistinct=21', 'numeric=whole_beyond_2**53']

_counter = collections.Counter()
_installed = False


def install():
    global _installed
    if _installed:
        return
    _installed = True
    from tdda.constraints.pd import constraints as pdc
    for k in ('calc_min', 'calc_max', 'calc_nunique', 'calc_unique_values', 'calc_null_count', 'calc_tdda_type'):
        reach.wrap_count(pdc.PandasConstraintCalculator, k, _counter)


def same_value(kind, got, want, col):
    if kind == 'allowed_values':
        return isinstance(got, list) and set(got) == want and len(got) == len(want)
    if kind in ('min', 'max') and isinstance(want, tuple):       # date instant
        if not isinstance(got, str):
            got = str(got)
        try:
            g = CS.parse_dt(got)
        except Exception:
            return False
        return g == want
    if isinstance(want, bool) or isinstance(got, bool):
        return got == want
    if 'sqltype' in col and type(got) in (int, float) and type(want) in (int, float):
        return got == want                                       # exact, also for whole numbers beyond 2**53
    if isinstance(want, float) or isinstance(got, float):
        try:
            return float(got) == float(want)
        except Exception:
            return False
    return got == want and type(got) is type(want) or (isinstance(got, int) and isinstance(want, int) and got == want)


def compare_field(rec, case, backend, col, nrows, got):
    exp, unspec = CS.expected_discovery(col, nrows)
    fam = F.FAMILY[col['kind']]
    if exp is None:
        rec.unspecified('column whose tdda type is not determined (%s)' % col['kind'])
        return
    rec.event('fields:compared')
    if got is None:
        rec.violation('field_missing', {'case': case, 'mech': {'backend': backend, 'family': fam}, 'facts': {'field': col['name']}})
        return
    got = dict(got)
    got.pop('rex', None)
    for kind in sorted(set(exp) | set(got)):
        if kind in unspec:
            continue
        mech = {'backend': backend, 'kind': kind, 'family': fam, 'colkind': col['kind']}
        if kind not in got:
            rec.violation('constraint_missing', {'case': case, 'mech': mech,
                                                 'facts': {'field': col['name'], 'expected': common.jsafe(exp[kind]), 'discovered': common.jsafe(got)}})
        elif kind not in exp:
            rec.violation('constraint_unexpected', {'case': case, 'mech': mech,
                                                    'facts': {'field': col['name'], 'discovered': common.jsafe(got[kind]), 'values': col['values'][:6]}})
        elif not same_value(kind, got[kind], exp[kind], col):
            sub = None
            if isinstance(exp[kind], tuple) and col['kind'] in ('dt_ns',) + tuple(F.TZ_KINDS):
                try:
                    g = CS.parse_dt(str(got[kind]))
                    if g[0] == exp[kind][0] and g[1] == 0 and exp[kind][1] != 0:
                        sub = 'sub-microsecond part dropped'
                except Exception:
                    pass
            rec.violation('statistic_wrong', {'case': case, 'mech': dict(mech, sub=sub),
                                              'facts': {'field': col['name'], 'discovered': common.jsafe(got[kind]),
                                                        'true': common.jsafe(exp[kind]), 'values': col['values'][:6]}})


def classes(cols, nrows):
    cls = [('rows=%d' % nrows,)]
    for c in cols:
        cls.append(('kind=' + c['kind'],))
        cls.append(('nulls=' + c.get('nulls', '?'),))
        if F.FAMILY[c['kind']] == 'string':
            cls.append(('ndistinct=%d' % len(set(v for v in c['values'] if v is not None)),))
        if 'sqltype' in c:
            cls.append(('sqltype=' + c['sqltype'],))
            if any(isinstance(v, int) and not isinstance(v, bool) and abs(v) > 2 ** 53 for v in c['values']) and c['kind'] == 'float64':
                cls.append(('numeric=whole_beyond_2**53',))
    return cls


def run_case(ctx, case):
    rec = ctx.rec
    install()
    err = io.StringIO()
    nontrivial = any(any(v is not None for v in c['values']) for c in case['spec']['cols'])
    if case['backend'] == 'pandas':
        from tdda.constraints import discover_df
        spec = case['spec']
        rec.case(case, nontrivial=nontrivial, cls=classes(spec['cols'], spec['nrows']))
        try:
            with contextlib.redirect_stderr(err), contextlib.redirect_stdout(err):
                cons = discover_df(F.build_frame(spec), inc_rex=False)
        except Exception as e:
            m = common.short_tb(e)
            rec.violation('raises', {'case': case, 'mech': {'backend': 'pandas', 'exc': m['exc'], 'where': m['where']}, 'facts': m})
            return
        rec.event('backend:pandas')
        fields = cons.to_dict()['fields'] if cons is not None else {}
        for col in spec['cols']:
            compare_field(rec, case, 'pandas', col, spec['nrows'], fields.get(col['name']))
        extra = set(fields) - set(c['name'] for c in spec['cols'])
        if extra:
            rec.violation('field_for_absent_data', {'case': case, 'mech': {'backend': 'pandas'}, 'facts': {'fields': sorted(extra)}})
    else:
        from tdda.constraints import discover_db_table
        spec = case['spec']
        rec.case(case, nontrivial=nontrivial, cls=classes(spec['cols'], spec['nrows']))
        sql = []
        try:
            db, conn = T.build_db(spec)
            conn.set_trace_callback(sql.append)
            with contextlib.redirect_stderr(err), contextlib.redirect_stdout(err):
                cons = discover_db_table('sqlite', db, spec['table'], inc_rex=False)
            conn.close()
        except Exception as e:
            m = common.short_tb(e)
            rec.violation('raises', {'case': case, 'mech': {'backend': 'sqlite', 'exc': m['exc'], 'where': m['where']},
                                     'facts': dict(m, last_sql=sql[-1:] if sql else None)})
            return
        rec.event('backend:sqlite')
        rec.event('sql:statements', len(sql))
        fields = cons.to_dict()['fields'] if cons is not None else {}
        for col in spec['cols']:
            compare_field(rec, case, 'sqlite', col, spec['nrows'], fields.get(col['name']))


def run_shard(ctx):
    rng = ctx.rng
    nk = len(F.RECOGNISED)
    for i in range(ctx.params['cases']):
        if i % 5 == 4:
            case = {'backend': 'sqlite', 'spec': T.gen_table(rng, allow_nul=True, allow_pk=True, allow_big_whole=True)}
        elif i < nk and ctx.shard % 4 == 0:
            kind = F.RECOGNISED[i % nk]
            spec = F.gen_frame(rng, kinds=[kind], nrows=rng.choice([1, 2, 3, 21, 30]))
            case = {'backend': 'pandas', 'spec': spec}
        else:
            case = {'backend': 'pandas', 'spec': F.gen_frame(rng)}
        run_case(ctx, case)
    for k, v in _counter.items():
        ctx.rec.event('reach:' + k, v)
    _counter.clear()

"""C13 — every returned expression compiles, is anchored, matches an example, is unique;
never more expressions than distinct examples; tagging changes only the grouping.

Deciding monitors: harness oracle over the paired calls tag=False / tag=True (same input,
same options, same global PRNG state) + the Extractor.extract contract (compiles /
none-for-empty on every extraction anywhere in the workload).
"""
import collections

from vt import common
from vt.gens import rexcases as RC
from vt.gens import strings as S
from vt.monitors import contracts, reach
from vt.oracles import rexmatch as O

ID = 'C13'
TIERS = {
    'quick': dict(shards=16, cases=1500, watchdog_s=900),
    'thorough': dict(shards=16, cases=60000, watchdog_s=6000),
}
RULE = ('cases = C03 case space plus max_patterns/min_strings_per_pattern in {1,2,3}, empty and all-null '
        'inputs, inputs needing more than 99 coarse fragments; each case is extracted twice (tag off/on). '
        'Non-trivial = at least two distinct surviving examples and at least one expression returned.')
ASSUMPTIONS = [
    "'matches at least one of the examples' is judged against the examples that survive explicit discards (nulls; empties if removed; stripped text if strip)",
    'anchored = starts with ^ and ends with an unescaped $',
]
REQUIRED_MONITORS = ['oracle:c13', 'contract:Extractor.extract', 'pairs:tag', 'reach:find_bad_patterns', 'reach:too_many_groups_fallback']
REQUIRED_CLASSES = ['dialect=perl', 'dialect=portable', 'dialect=grep', 'pruning=1', 'input=empty', 'input=toomanygroups']

_counter = collections.Counter()
_installed = False


def install():
    global _installed
    if _installed:
        return
    _installed = True
    from tdda.rexpy import rexpy
    contracts.attach('rexpy')
    reach.wrap_count(rexpy.Extractor, 'find_bad_patterns', _counter)
    reach.wrap_count(rexpy.Extractor, 'merge_patterns', _counter)
    reach.wrap_count(rexpy.ResultsSummary, 'remove', _counter, 'ResultsSummary.remove')


def flush(rec):
    for k, v in _counter.items():
        rec.event('reach:' + k, v)
    _counter.clear()
    for k, v in contracts.EVALS.items():
        rec.event('contract:' + k, v)
    contracts.EVALS.clear()


def check_one(rec, case, rex, targets, label):
    """All single-result clauses.  Returns compiled list or None."""
    kw = case['kw']
    mech = {'dialect': kw['dialect'], 'tag': label}
    comp, err = O.compile_all(rex)
    if comp is None:
        rec.violation('uncompilable', {'case': case, 'mech': mech, 'facts': {'rex': err[0], 'error': err[1]}})
        return None
    bad = [r for r in rex if not O.anchored(r)]
    if bad:
        rec.violation('unanchored', {'case': case, 'mech': mech, 'facts': {'rex': bad[:3]}})
    if len(set(rex)) != len(rex):
        dup = [r for r, n in collections.Counter(rex).items() if n > 1]
        rec.violation('duplicate', {'case': case, 'mech': mech, 'facts': {'dup': dup[:3], 'rex': rex[:8]}})
    distinct = set(targets)
    if len(rex) > len(distinct):
        rec.violation('too_many', {'case': case, 'mech': mech,
                                   'facts': {'n_rex': len(rex), 'n_distinct': len(distinct), 'rex': rex[:8]}})
    useless = [r for r, c in zip(rex, comp) if not any(c.match(t) for t in distinct)]
    if useless:
        rec.violation('useless', {'case': case, 'mech': mech, 'facts': {'useless': useless[:3], 'rex': rex[:8],
                                                                         'n_targets': len(distinct)}})
    return comp


def run_case(ctx, case):
    rec = ctx.rec
    install()
    kw = case['kw']
    targets = O.targets_of(case['xs'], kw['strip'], kw['remove_empties'])
    pruning = 'max_patterns' in kw or kw.get('min_strings_per_pattern', 1) > 1
    cls = [('dialect=' + kw['dialect'],), ('pruning=%d' % pruning,), ('form=' + case['form'],),
           ('input=' + case.get('shape', 'empty' if not targets else 'normal'),),
           ('sampling=%d' % RC.effective_sampling(case),)]
    results = {}
    for tag in (False, True):
        if case['form'] in RC.SERIES_FORMS and tag:
            continue                     # pdextract has no tag option
        try:
            x = RC.run_extractor(case, tag=tag)
        except Exception as e:
            contracts.drain()
            m = common.short_tb(e)
            rec.violation('raises', {'case': case, 'mech': {'exc': m['exc'], 'where': m['where'], 'tag': tag}, 'facts': m})
            return
        results[tag] = RC.rex_of(x)
        if getattr(x, 'n_too_many_groups', 0):
            rec.event('reach:too_many_groups_fallback')
        for b in contracts.drain():
            if b['contract'] in ('extract.compiles', 'extract.none_for_empty'):
                rec.violation('contract:' + b['contract'], {'case': case, 'mech': {'contract': b['contract']}, 'facts': b['facts']})
    rec.event('oracle:c13')
    rec.case(case, nontrivial=len(set(targets)) >= 2 and bool(results.get(False)), cls=cls)
    comps = {}
    for tag, rex in results.items():
        comps[tag] = check_one(rec, case, rex, targets, tag)
        if not targets and rex:
            rec.violation('none_for_empty', {'case': case, 'mech': {'tag': tag}, 'facts': {'rex': rex[:4]}})
    if True in results and comps.get(False) is not None and comps.get(True) is not None:
        rec.event('pairs:tag')
        a, b = results[False], results[True]
        if len(a) != len(b):
            rec.violation('tag_count', {'case': case, 'mech': {'dialect': kw['dialect']},
                                        'facts': {'untagged': a[:6], 'tagged': b[:6]}})
        else:
            distinct = sorted(set(targets))
            for i, (ca, cb) in enumerate(zip(comps[False], comps[True])):
                ma = [t for t in distinct if ca.match(t)]
                mb = [t for t in distinct if cb.match(t)]
                if ma != mb:
                    rec.violation('tag_matches_differ', {
                        'case': case, 'mech': {'dialect': kw['dialect']},
                        'facts': {'position': i, 'untagged': a[i], 'tagged': b[i],
                                  'only_untagged': [t for t in ma if t not in mb][:3],
                                  'only_tagged': [t for t in mb if t not in ma][:3]}})
                    break


def special_case(rng, k):
    base = RC.gen_case(rng, pruning=False)
    base['form'] = 'list'
    if k == 0:
        base['xs'] = []
        base['shape'] = 'empty'
    elif k == 1:
        base['xs'] = [None, None]
        base['shape'] = 'empty'
    elif k == 2:
        base['xs'] = ['', '', ' ']
        base['kw']['remove_empties'] = True
        base['kw']['strip'] = True
        base['shape'] = 'empty'
    else:
        # > 99 coarse fragments: alternate classes 100+ times
        pair = rng.choice(['a-', '1 ', '-a', '. ', 'é;'])
        base['xs'] = [pair * rng.randint(51, 70) for _ in range(rng.randint(1, 3))] + S.multiset(rng, n=3)
        base['shape'] = 'toomanygroups'
    base['size'] = None
    return base


def run_shard(ctx):
    n = ctx.params['cases']
    for i in range(n):
        if i < 6:
            case = special_case(ctx.rng, i % 4 if ctx.shard else i)
        else:
            case = RC.gen_case(ctx.rng, i - 6 if ctx.shard == 0 else None, pruning=(i % 2 == 0))
        run_case(ctx, case)
    flush(ctx.rec)

"""C15 — failing text/binary assertions leave faithful artefacts; passing ones leave none;
nothing is written outside the configured temporary directory.

Deciding monitor: M-FS - the audit-hook event log gives every path opened for writing /
removed / renamed during one assertion, directory snapshots give the contents; the failure
message is parsed for its diff/cp command lines.  The post-processed pair is compared with
the unexcused positions computed by the independent text oracle (must-cases only).
"""
import os
import re

from vt import common
from vt.gens import texts as T
from vt.monitors import fsmon
from vt.oracles import textcmp

ID = 'C15'
TIERS = {
    'quick': dict(shards=15, cases=3000, watchdog_s=900),
    'thorough': dict(shards=15, cases=100000, watchdog_s=6000),
}
RULE = ('case = C04 text pair (0-3 near-miss edits) x option subset x entry point {string-vs-file, file-vs-file, '
        'list-of-files} or a pair of byte strings (first difference at 0 / middle / at the shorter length / none) through '
        'assertBinaryFileCorrect; tmp dir configured by set_defaults (shards 0,3,..), TDDA_FAIL_DIR (1,4,..) or left to '
        'TMPDIR (2,5,..). Non-trivial = the assertion failed, or passed with an option in force.')
ASSUMPTIONS = [
    "'exclusions were in force' = preprocess given, or some line was actually removed or excused; options that excused nothing do not oblige a post-processed pair",
    'the post-processed pair is judged only when both sides have the same number of lines after removals and the text oracle gives a definite set of unexcused pairs',
    'paths in messages contain no spaces (harness-chosen)',
]
REQUIRED_MONITORS = ['config:tmp_dir_created_after_construction', 'config:two_suites_with_their_own_tmp_dir', 'fs:assertions_watched', 'artefact:raw_actual_checked', 'artefact:postprocessed_checked',
                     'artefact:binary_checked', 'fs:passing_checked', 'msg:commands_parsed']
REQUIRED_CLASSES = ['entry=string', 'entry=file', 'entry=files', 'entry=binary', 'outcome=fail', 'outcome=pass']

_rt = None
_outcomes = []
_tmp = None
CMD = re.compile(r'^\s+(diff|cp|fc|copy) (\S+) (\S+)\s*$', re.M)


def setup(ctx):
    global _rt, _tmp
    if _rt is not None:
        return _rt
    mode = ctx.shard % 3
    _tmp = os.path.join(ctx.scratch, 'faildir%d' % mode)
    os.makedirs(_tmp, exist_ok=True)
    if mode == 1:
        os.environ['TDDA_FAIL_DIR'] = _tmp
    elif mode == 2:
        os.environ.pop('TDDA_FAIL_DIR', None)
        os.environ['TMPDIR'] = _tmp
        import tempfile
        tempfile.tempdir = None
    from tdda.referencetest.referencetest import ReferenceTest
    klass = ReferenceTest
    if mode == 0 and ctx.shard % 2 == 0:
        ReferenceTest.set_defaults(tmp_dir=_tmp)
    elif mode == 0:
        # defaults are set "at the class level": two suites configure their own classes, the other one LAST and before
        # any instance exists - this suite's artefacts still belong in this suite's directory
        class SuiteA(ReferenceTest):
            pass

        class SuiteB(ReferenceTest):
            pass
        other = os.path.join(ctx.scratch, 'faildir_of_another_suite')
        os.makedirs(other, exist_ok=True)
        SuiteA.set_defaults(tmp_dir=_tmp)
        SuiteB.set_defaults(tmp_dir=other)
        klass = SuiteA
        ctx.rec.event('config:two_suites_with_their_own_tmp_dir')
    ReferenceTest.set_defaults(verbose=False)

    def assert_fn(ok, msg):
        _outcomes.append((bool(ok), msg))
    late = mode in (0, 1) and ctx.shard % 4 in (0, 1)
    if late:
        # the configured directory is made only AFTER the test object exists (unittest builds its TestCase objects at
        # collection time, a setUp makes the directory later): it is still the configured directory
        import shutil
        shutil.rmtree(_tmp)
        ctx.rec.event('config:tmp_dir_created_after_construction')
    _rt = klass(assert_fn)
    if late:
        os.makedirs(_tmp)
    ctx.rec.cls('tmpdir_mode=%s' % ['set_defaults', 'TDDA_FAIL_DIR', 'TMPDIR'][mode])
    return _rt


def write(path, data):
    if isinstance(data, bytes):
        with open(path, 'wb') as f:
            f.write(data)
    else:
        with open(path, 'w', encoding='iso-8859-1' if path.lower().endswith('.pdf') else 'utf-8', newline='') as f:
            f.write(data)


def read_text(path):
    # (tdda reads and writes *.pdf - and its temporaries named after one - as iso-8859-1, everything else as UTF-8)
    with open(path, encoding='iso-8859-1' if path.lower().endswith('.pdf') else 'utf-8', newline='') as f:
        return f.read()


def gen_case(rng, i):
    if i % 5 == 4:
        n = rng.choice([0, 1, 5, 40, 300, 4096, 5000, 9000, 70000])
        a = rng.randbytes(n) if n > 300 else bytes(rng.randrange(256) for _ in range(n))
        k = rng.random()
        if k < 0.2:
            b = a
        elif k < 0.5 and n:
            j = rng.choice([0, n // 2, n - 1] + [x for x in (4095, 4096, 4097, 8191, 8192, 65536) if x < n])
            b = a[:j] + bytes([(a[j] + 1) % 256]) + a[j + 1:]
        elif k < 0.7:
            b = a + bytes(rng.randrange(256) for _ in range(rng.randint(1, 4)))
        elif k < 0.85 and n:
            b = a[:rng.randrange(n)]
        else:
            b = bytes(rng.randrange(256) for _ in range(rng.choice([0, 3, n])))
        return {'entry': 'binary', 'actual_hex': a.hex(), 'expected_hex': b.hex(), 'opts': {}, 'muts': []}
    if i % 5 == 3:
        return combo_case(rng)
    act, ref, muts = T.gen_pair(rng)
    opts, subset = T.gen_opts(rng)
    opts.pop('max_permutation_cases', None) if rng.random() < 0.5 else None
    entry = rng.choice(['string', 'string', 'file', 'files'])
    case = {'opts': opts, 'entry': entry, 'muts': muts, 'actual_text': T.to_text(rng, act),
            'expected_text': T.to_text(rng, ref)}
    if rng.random() < 0.1:
        # degenerate sides: nothing at all, only line ends, or only lines that the options take out again
        deg = rng.choice(['', '\n', '\n\n', 'RM a\nRM b\n', ' \n\t\n'])
        if 'RM' in deg:
            case['opts']['remove_lines'] = ['RM']
        side = rng.choice(['actual_text', 'actual_text', 'expected_text', 'both'])
        for k in (['actual_text', 'expected_text'] if side == 'both' else [side]):
            case[k] = deg
        case['shape'] = 'degenerate-' + side
    if entry == 'string' and rng.random() < 0.06:
        # a reference called *.pdf: Latin-1 text only (what iso-8859-1 can hold), no options whose strings are not ASCII
        case['names'] = ['act.txt', 'ref.pdf']
        for k in ('actual_text', 'expected_text'):
            case[k] = ''.join(ch if ord(ch) < 256 and ch not in '\x85\xa0' else 'é' for ch in case[k])
        case['opts'] = {k: v for k, v in case['opts'].items() if k in ('lstrip', 'rstrip')}
    elif entry in ('string', 'file') and rng.random() < 0.12:
        case['names'] = rng.choice([['act.txt', 'actual-raw-ref.txt'], ['actual-out.txt', 'expected-out.txt'], ['act.txt', 'expected-raw-ref.txt'],
                                    ['actual-raw-out.txt', 'ref.txt'], ['act.txt', 'actual-ref.txt']])
    if entry == 'files':
        good = T.to_text(rng, ref)
        if rng.random() < 0.5:
            case['others'] = [[good, good]]
        else:
            a2, r2, _ = T.gen_pair(rng)          # an independent second pair, failing or not
            case['others'] = [[T.to_text(rng, a2), T.to_text(rng, r2)]]
        case['pos'] = rng.randrange(2)
    return case


def combo_case(rng):
    """Directed: a removable line on ONE side shifts the numbering, a later pair is excused by an
    ignore-pattern/substring and another later pair is a real difference - the situation in which
    the post-processed pair has to map positions correctly."""
    n = rng.randint(4, 8)
    ref = ['L%d %s %d' % (i, rng.choice(['alpha', 'beta', 'x']), rng.randrange(100)) for i in range(n)]
    act = list(ref)
    idx = sorted(rng.sample(range(n), 3))
    ex, real = (idx[1], idx[2]) if rng.random() < 0.5 else (idx[2], idx[1])
    if rng.random() < 0.5:
        act[ex] = act[ex].rsplit(' ', 1)[0] + ' %d' % rng.randrange(100, 999)      # excused by \d+
        opts = {'ignore_patterns': ['\\d+'], 'remove_lines': ['RM']}
    else:
        ref[ex] = ref[ex] + ' IGN'
        act[ex] = act[ex] + ' changed'
        opts = {'ignore_substrings': ['IGN'], 'remove_lines': ['RM']}
    act[real] = act[real].replace('L', 'K', 1) + ' really'
    side = rng.choice(['actual', 'expected', 'both'])
    pos = rng.randint(0, idx[0])
    if side in ('actual', 'both'):
        act.insert(pos, 'RM optional a')
    if side in ('expected', 'both'):
        ref.insert(rng.randint(0, idx[0]), 'RM optional e')
    if rng.random() < 0.3:
        opts['rstrip'] = True
    entry = rng.choice(['string', 'file', 'files'])
    case = {'opts': opts, 'entry': entry, 'muts': ['combo-' + side], 'actual_text': '\n'.join(act) + '\n',
            'expected_text': '\n'.join(ref) + '\n'}
    if entry == 'files':
        # a second failing pair in which nothing is removed or excused, before or after the first
        w = 'w%d' % rng.randrange(100)
        case['others'] = [['one %s\ntwo\nthree\n' % w, 'one %s\nTWO\nthree\n' % w]]
        case['pos'] = rng.randrange(2)
    return case


def check_commands(rec, case, msg, mech):
    """Every diff/cp command line in the message must name files that exist (cp: the source)."""
    cmds = CMD.findall(msg)
    rec.event('msg:commands_parsed', len(cmds))
    for cmd, a, b in cmds:
        missing = [p for p in ((a, b) if cmd in ('diff', 'fc') else (a,)) if not os.path.exists(p)]
        if missing:
            rec.violation('command_names_missing_file', {'case': case, 'mech': dict(mech, cmd=cmd),
                                                         'facts': {'missing': missing, 'message': msg[:600]}})
    return cmds


def run_case(ctx, case):
    rec = ctx.rec
    r = setup(ctx)
    entry = case['entry']
    o = case['opts']
    ro = T.real_opts(o)
    oo = dict(ro)
    if 'preprocess' in oo:
        oo['preprocess_fn'] = oo.pop('preprocess')
    d = os.path.join(ctx.scratch, 'work')
    os.makedirs(d, exist_ok=True)
    for fn in os.listdir(_tmp):
        os.unlink(os.path.join(_tmp, fn))
    del _outcomes[:]
    mech = {'entry': entry}
    # ---- set the stage (not watched) ------------------------------------
    if entry == 'binary':
        ap, ep = os.path.join(d, 'act.bin'), os.path.join(d, 'ref.bin')
        a, b = bytes.fromhex(case['actual_hex']), bytes.fromhex(case['expected_hex'])
        write(ap, a)
        write(ep, b)
        call = lambda: r.assertBinaryFileCorrect(ap, ep)
        inputs = [ap, ep]
    else:
        for fn in os.listdir(d):
            if os.path.isfile(os.path.join(d, fn)):
                os.unlink(os.path.join(d, fn))
        # (file names that look like tdda's own temporaries: a reference kept under the name of an old "actual" file)
        an, en = case.get('names') or ('act.txt', 'ref.txt')
        ap, ep = os.path.join(d, an), os.path.join(d, en)
        write(ep, case['expected_text'])
        write(ap, case['actual_text'])
        inputs = [ap, ep]
        if entry == 'string':
            os.unlink(ap)
            inputs = [ep]
            call = lambda: r.assertStringCorrect(case['actual_text'], ep, **ro)
        elif entry == 'file':
            call = lambda: r.assertTextFileCorrect(ap, ep, **ro)
        else:
            texts = list(case['others'])
            texts.insert(case['pos'], [case['actual_text'], case['expected_text']])
            aps, eps = [], []
            for k, (a_, e_) in enumerate(texts):
                pa, pe = os.path.join(d, 'a%d.txt' % k), os.path.join(d, 'e%d.txt' % k)
                write(pa, a_)
                write(pe, e_)
                aps.append(pa)
                eps.append(pe)
            ap, ep = aps[case['pos']], eps[case['pos']]
            inputs = aps + eps
            call = lambda: r.assertTextFilesCorrect(aps, eps, **ro)
    before_in = {p: fsmon.snapshot(os.path.dirname(p)).get(os.path.basename(p)) for p in inputs}
    # ---- the monitored assertion ----------------------------------------
    try:
        with fsmon.watch() as w:
            call()
    except Exception as e:
        m = common.short_tb(e)
        pats = o.get('ignore_patterns') or []
        rec.case(case, cls=[('entry=' + entry,), ('outcome=raise',)])
        if any(textcmp.pattern_kind(p) == 'half' or textcmp.can_match_empty(p) for p in pats):
            rec.unspecified('exception under an ignore-pattern that can match the empty string')
            return
        rec.violation('raises', {'case': case, 'mech': {'exc': m['exc'], 'where': m['where']}, 'facts': m})
        return
    rec.event('fs:assertions_watched')
    if len(_outcomes) != 1:
        rec.violation('assert_fn_calls', {'case': case, 'mech': mech, 'facts': {'n': len(_outcomes)}})
        return
    ok, msg = _outcomes[0]
    rec.case(case, nontrivial=(not ok) or bool(o),
             cls=[('entry=' + entry,), ('outcome=' + ('pass' if ok else 'fail'),),
                  ('opts=' + ','.join(sorted(k[:6] for k in o)),)])
    written = w.written_paths()
    after_tmp = fsmon.snapshot(_tmp)
    # inputs never touched
    for p in inputs:
        now = fsmon.snapshot(os.path.dirname(p)).get(os.path.basename(p))
        if now != before_in[p]:
            rec.violation('input_modified', {'case': case, 'mech': mech, 'facts': {'path': p}})
    outside = sorted(p for p in written if not (p + '/').startswith(os.path.abspath(_tmp) + '/'))
    if outside:
        rec.violation('write_outside_tmp_dir', {'case': case, 'mech': mech, 'facts': {'paths': outside, 'tmp_dir': _tmp}})
    if ok:
        rec.event('fs:passing_checked')
        if written or after_tmp:
            rec.violation('passing_assertion_wrote', {'case': case, 'mech': mech,
                                                      'facts': {'events': sorted(written), 'tmp': sorted(after_tmp)}})
        return
    # ---- failing assertion: artefacts -----------------------------------
    cmds = check_commands(rec, case, msg, mech)
    if not cmds:
        pats = o.get('ignore_patterns') or []
        if any(textcmp.pattern_kind(p) == 'half' or textcmp.can_match_empty(p) for p in pats):
            rec.unspecified('exception under an ignore-pattern that can match the empty string')
            return
        rec.violation('no_comparison_command', {'case': case, 'mech': mech, 'facts': {'message': msg[:600]}})
        return
    if entry == 'binary':
        rec.event('artefact:binary_checked')
        a, b = bytes.fromhex(case['actual_hex']), bytes.fromhex(case['expected_hex'])
        off = next((i for i in range(min(len(a), len(b))) if a[i] != b[i]), min(len(a), len(b)))
        m = re.search(r'First difference at byte offset (\d+), (?:both files have length (\d+)|actual length (\d+), expected length (\d+))', msg)
        if not m:
            rec.violation('binary_message', {'case': case, 'mech': mech, 'facts': {'message': msg[:400]}})
        else:
            got_off = int(m.group(1))
            la, lb = (int(m.group(2)),) * 2 if m.group(2) else (int(m.group(3)), int(m.group(4)))
            if (got_off, la, lb) != (off, len(a), len(b)):
                rec.violation('binary_offsets', {'case': case, 'mech': mech,
                                                 'facts': {'reported': [got_off, la, lb], 'true': [off, len(a), len(b)]}})
        if (cmds[0][1], cmds[0][2]) != (ap, ep):
            rec.violation('binary_command_paths', {'case': case, 'mech': mech, 'facts': {'cmd': cmds[0]}})
        return
    # raw comparison command: first command in the message for this pair
    raw = [c for c in cmds if os.path.abspath(c[2]) == os.path.abspath(ep) or os.path.basename(c[1]).startswith('actual-raw-')]
    post = [c for c in cmds if os.path.basename(c[1]).startswith('actual-') and not os.path.basename(c[1]).startswith('actual-raw-')
            and os.path.basename(c[2]).startswith('expected-')]
    if entry in ('string',) and raw:
        rec.event('artefact:raw_actual_checked')
        p = raw[0][1]
        if os.path.exists(p):
            got = read_text(p)
            want = case['actual_text']
            if got != want:
                if got.splitlines() == want.splitlines():
                    kind, sub = 'raw_actual_final_newline', 'line-for-line equal; line ends or final newline differ'
                else:
                    kind, sub = 'raw_actual_content', 'lines differ'
                rec.violation(kind, {'case': case,
                                     'mech': dict(mech, sub=sub, removal=bool(o.get('remove_lines')),
                                                  preprocess=bool(o.get('preprocess'))),
                                     'facts': {'file': got[:300], 'actual': want[:300]}})
    elif entry == 'string':
        # no raw comparison offered: then some other command named in the message has to give a file holding
        # exactly the string that was asserted
        rec.event('artefact:raw_actual_checked')
        holds = [c for c in cmds if os.path.exists(c[1]) and read_text(c[1]) == case['actual_text']]
        if not holds:
            rec.violation('no_command_gives_the_actual_string', {
                'case': case, 'mech': dict(mech, removal=bool(o.get('remove_lines')), preprocess=bool(o.get('preprocess')),
                                           actual=('empty' if case['actual_text'] == '' else 'blank' if not case['actual_text'].strip() else 'text')),
                'facts': {'commands': [list(c) for c in cmds[:3]], 'actual': case['actual_text'][:200]}})
    elif entry in ('file', 'files') and raw:
        rec.event('artefact:raw_actual_checked')
        if os.path.abspath(raw[0][1]) != os.path.abspath(ap):
            rec.violation('raw_command_not_actual_file', {'case': case, 'mech': mech, 'facts': {'cmd': raw[0]}})
    # post-processed pair(s): one per compared pair of texts
    if entry == 'files':
        texts = list(case['others'])
        texts.insert(case['pos'], [case['actual_text'], case['expected_text']])
        for k, (a_, e_) in enumerate(texts):
            check_postprocessed(rec, case, dict(mech, pair=('main' if k == case['pos'] else 'other')), o, oo, cmds, a_, e_,
                                'a%d.txt' % k, msg, multi=True)
    else:
        check_postprocessed(rec, case, mech, o, oo, cmds, case['actual_text'], case['expected_text'],
                            os.path.basename(ep if entry == 'string' else ap), msg)


def check_postprocessed(rec, case, mech, o, oo, cmds, actual_text, expected_text, commonname, msg, multi=False):
    post = [c for c in cmds if os.path.basename(c[1]) == 'actual-' + commonname and os.path.basename(c[2]) == 'expected-' + commonname]
    al, el = actual_text.splitlines(), expected_text.splitlines()
    v, info = textcmp.verdict(al, el, oo)
    if v == 'pass':
        if post:
            rec.violation('postprocessed_pair_for_a_passing_pair', {'case': case, 'mech': mech, 'facts': {'cmd': post[0]}})
        return
    if v == 'fail' and 'inexcusable' not in info and not o.get('remove_lines') and not o.get('preprocess') \
            and al and el and al[-1] != '' and el[-1] != '' and len(al) != len(el):
        # different numbers of lines, nothing removed or preprocessed: when one text is the other plus extra lines at the end and
        # every pair of the common part is equal or excused, the post-processed pair has to agree on the whole common part
        m = min(len(al), len(el))
        oo2 = {k: oo[k] for k in ('lstrip', 'rstrip', 'ignore_substrings', 'ignore_patterns') if oo.get(k)}
        v2, info2 = textcmp.verdict(al[:m], el[:m], oo2)
        if v2 == 'pass' and not info2.get('maybe') and not info2.get('strip_only_excuse'):
            rec.event('artefact:extra_lines_after_an_excused_part')
            if not post:
                if info2.get('excused'):
                    rec.violation('no_postprocessed_pair', {'case': case, 'mech': dict(mech, lines='different number'), 'facts': {'message': msg[:500]}})
                return
            pa, pe = post[0][1], post[0][2]
            if os.path.exists(pa) and os.path.exists(pe):
                ba, be = _body(read_text(pa).split('\n')), _body(read_text(pe).split('\n'))
                bad = [(x, y) for x, y in list(zip(ba, be))[:m] if x != y]
                if bad:
                    rec.violation('postprocessed_pair_wrong_lines', {
                        'case': case, 'mech': dict(mech, removal=False, subs=bool(o.get('ignore_substrings')), pats=bool(o.get('ignore_patterns')),
                                                   lines='different number'),
                        'facts': {'differing_lines_in_files': bad[:5], 'unexcused_pairs': [], 'excused': info2.get('excused'), 'pair': commonname}})
            return
    if v != 'fail' or 'inexcusable' not in info or info.get('maybe'):
        rec.unspecified('post-processed pair: oracle has no definite unexcused set')
        return
    took_effect = bool(o.get('preprocess')) or bool(info.get('excused')) or \
        any(any(rm in l for rm in (o.get('remove_lines') or [])) for l in al + el)
    if not post:
        if took_effect:
            rec.violation('no_postprocessed_pair', {'case': case, 'mech': mech, 'facts': {'message': msg[:500]}})
        return
    rec.event('artefact:postprocessed_checked')
    pa, pe = post[0][1], post[0][2]
    if not (os.path.exists(pa) and os.path.exists(pe)):
        return     # already reported by check_commands
    ta, te = read_text(pa).split('\n'), read_text(pe).split('\n')
    ba, be = _body(ta), _body(te)
    diffs = [(x, y) for x, y in zip(ba, be) if x != y]
    if len(ba) != len(be):
        diffs.append(('<length %d>' % len(ba), '<length %d>' % len(be)))
    want = [tuple(p) for p in _unexcused_pairs(al, el, oo, info)]
    if diffs != want:
        rec.violation('postprocessed_pair_wrong_lines', {
            'case': case, 'mech': dict(mech, removal=bool(o.get('remove_lines')), subs=bool(o.get('ignore_substrings')),
                                       pats=bool(o.get('ignore_patterns'))),
            'facts': {'differing_lines_in_files': diffs[:5], 'unexcused_pairs': want[:5], 'pair': commonname}})


def _body(t):
    # strip the '***\n<command>***\n\n' header the files start with
    if t and t[0] == '***':
        k = t.index('***', 1) if '***' in t[1:] else 0
        return t[k + 2:]
    return t


def _unexcused_pairs(al, el, oo, info):
    pre = oo.get('preprocess_fn')
    if pre:
        al, el = pre(list(al)), pre(list(el))
    if al and al[-1] == '':
        al = al[:-1]
    if el and el[-1] == '':
        el = el[:-1]
    rl = oo.get('remove_lines') or []
    al = [x for x in al if not any(r in x for r in rl)]
    el = [x for x in el if not any(r in x for r in rl)]
    norm = textcmp.normalizer(oo.get('lstrip'), oo.get('rstrip'))
    return [(norm(al[i]), norm(el[i])) for i in info['inexcusable']]


def run_shard(ctx):
    for i in range(ctx.params['cases']):
        run_case(ctx, gen_case(ctx.rng, i))

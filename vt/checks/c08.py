"""C08 — database discovery is sound and database verification notices a violating row.

Each case is a history on one SQLite table: discover -> verify (must be clean) -> for every
discovered constraint: SAVEPOINT, insert one row built to break exactly that constraint,
verify (that constraint must now be reported failed), ROLLBACK -> verify (clean again).
A sqlite3 trace callback records every SQL statement tdda issues, so an OperationalError
comes with the offending statement.
"""
import contextlib
import datetime
import io
import os
import re

from vt import common
from vt.gens import frames as F
from vt.gens import tables as T
from vt.oracles import constraint_semantics as CS

ID = 'C08'
TIERS = {
    'quick': dict(shards=16, cases=300, watchdog_s=900),
    'thorough': dict(shards=16, cases=12000, big_tables=16, watchdog_s=7000),
}
RULE = ('case = SQLite table (1-4 columns of integer/bigint/real/double/text/varchar/boolean/datetime, 0-30 rows, any '
        'null pattern, text with quotes/backslashes/percent/unicode/empty strings, quoted column names) x rex off/on; '
        'one perturbation step per discovered constraint (two for integer bounds: a whole and a fractional step). evaluations counts verification runs. Non-trivial = a '
        'perturbation step, or a closure on a table with data; distinct = fingerprint of (table spec, step).')
ASSUMPTIONS = [
    'a perturbing row carries NULL in the other columns, so other constraints (their max_nulls) may fail too; only the targeted constraint is required to fail',
    'type constraints cannot be broken by a single row in SQLite (declared types) and are not perturbed',
    'the string used to break a rex constraint is one that no discovered expression matches under Python re with and without DOTALL',
]
REQUIRED_MONITORS = ['tables:big', 'perturb:fraction_in_integer_column', 'connection:named_db_beside_connection_file', 'closure:clean', 'perturb:min', 'perturb:max', 'perturb:min_length', 'perturb:max_length',
                     'perturb:allowed_values', 'perturb:no_duplicates', 'perturb:max_nulls', 'perturb:rex', 'perturb:rex_multiline',
                     'perturb:sign', 'sql:statements', 'rollback:clean',
                     'sql:regexp_statements', 'sql:regexp_with_quote_in_expression']
REQUIRED_CLASSES = ['rex=0', 'rex=1', 'rows=0', 'nulls=all'] + ['sqltype=%s' % s for s in T.SQLTYPES]


def verdicts(v):
    return {(n, k): ok for n, fv in v.fields.items() for k, ok in fv.items()}


def breaking_value(col, kind, value, fields):
    """A value for col that violates constraint (kind, value); None if impossible."""
    fam = F.FAMILY[col['kind']]
    if kind in ('min', 'max'):
        d = -1 if kind == 'min' else 1
        if fam == 'bool':
            if kind == 'min' and value in (1, True):
                return 0
            if kind == 'max' and value in (0, False):
                return 1
            return 'IMPOSSIBLE'
        if fam == 'int':
            x = value + d
            return x if -2 ** 63 <= x < 2 ** 63 else 'IMPOSSIBLE'
        if fam == 'real':
            return value + d * (abs(value) * 0.5 + 1.0)
        if fam == 'date':
            dt = CS.parse_dt(value)[0]
            try:
                return (dt + datetime.timedelta(days=d)).strftime('%Y-%m-%d %H:%M:%S').zfill(19)
            except OverflowError:
                return 'IMPOSSIBLE'
    if kind == 'min_length':
        return 'x' * (value - 1) if value >= 1 else 'IMPOSSIBLE'
    if kind == 'max_length':
        return 'y' * (value + 1)
    if kind == 'allowed_values':
        for cand in ['new-category', 'zz', 'q', 'Other']:
            if cand not in value:
                return cand
    if kind == 'no_duplicates':
        nn = [v for v in col['values'] if v is not None]
        return T.sql_value(col, nn[0]) if nn else 'IMPOSSIBLE'
    if kind == 'max_nulls':
        return None
    if kind == 'sign':
        if fam == 'bool':
            return {'positive': 0, 'zero': 1}.get(value, 'IMPOSSIBLE')
        x = {'positive': -1, 'non-negative': -1, 'zero': 1, 'non-positive': 1, 'negative': 1}.get(value, 'IMPOSSIBLE')
        return float(x) if fam == 'real' and x != 'IMPOSSIBLE' else x
    if kind == 'rex':
        comps = []
        for r in value:
            try:
                comps.append((re.compile(r), re.compile(r, re.U | re.S)))
            except re.error:
                return 'IMPOSSIBLE'
        for cand in ['☃ unmatched ☃ 7', 'Zz9 ~~', '!!', '0', 'a', '', ' ', 'A-1_b.c', 'éé']:
            if not any(a.match(cand) or b.match(cand) for a, b in comps):
                return cand
        return 'IMPOSSIBLE'
    return 'IMPOSSIBLE'


def run_case(ctx, case):
    rec = ctx.rec
    from tdda.constraints import discover_db_table, verify_db_table
    spec = case['spec']
    cols = {c['name']: c for c in spec['cols']}
    cls = [('rex=%d' % case['rex'],), ('rows=%d' % spec['nrows'],)] + [('sqltype=' + c['sqltype'],) for c in spec['cols']] + \
          [('nulls=' + c['nulls'],) for c in spec['cols']]
    err = io.StringIO()
    sql = []
    path = os.path.join(ctx.scratch, 'c08.tdda')
    stage = 'build'
    via = case.get('via')
    ins = None
    if via:
        # the table lives in a database FILE that is named explicitly, while a connection file (the default one in
        # $HOME, or one passed as conn=) names ANOTHER database holding a table of the same name: named parameters
        # override the connection file, so discovery, verification and the perturbing row all concern the named file
        import json as _json
        import shutil as _shutil
        import sqlite3 as _sqlite3
        from tdda.constraints.db.drivers import database_connection
        d = os.path.join(ctx.scratch, 'c08conn')
        _shutil.rmtree(d, ignore_errors=True)
        os.makedirs(os.path.join(d, 'home'))
        work, other = os.path.join(d, 'work.sqlite'), os.path.join(d, 'other.sqlite')
        for pth in (work, other):
            _db, _c = T.build_db(spec, pth)
            _c.close()
        cf = os.path.join(d, 'home', '.tdda_db_conn_sqlite') if via['file'] == 'home' else os.path.join(d, 'my.conn')
        with open(cf, 'w') as f:
            _json.dump({'dbtype': 'sqlite', via['file_key']: other if via['abs'] else os.path.relpath(other, os.path.dirname(cf))}, f)
        kw = {via['db_kw']: work}
        if via['file'] == 'conn':
            kw[via['conn_kw']] = cf
        old_home = os.environ.get('HOME')
        os.environ['HOME'] = os.path.join(d, 'home')
        try:
            db = database_connection(dbtype='sqlite', **kw)
        finally:
            if old_home is None:
                os.environ.pop('HOME', None)
            else:
                os.environ['HOME'] = old_home
        conn = db.connection
        ins = _sqlite3.connect(work)
        rec.event('connection:named_db_beside_connection_file')
        cls = cls + [('via=connection-file-' + via['file'],)]
    else:
        db, conn = T.build_db(spec)
    conn.set_trace_callback(sql.append)

    def verify():
        with contextlib.redirect_stderr(err), contextlib.redirect_stdout(err):
            return verify_db_table('sqlite', db, spec['table'], path, testing=True)

    def raised(e, step=None):
        m = common.short_tb(e)
        rec.violation('raises', {'case': case, 'mech': {'stage': stage, 'exc': m['exc'], 'where': m['where']},
                                 'facts': dict(m, step=step, last_sql=[s for s in sql[-2:]])})
    try:
        stage = 'discover'
        with contextlib.redirect_stderr(err), contextlib.redirect_stdout(err):
            cons = discover_db_table('sqlite', db, spec['table'], inc_rex=case['rex'], seed=7)
        if cons is None:
            rec.case(case, nontrivial=False, cls=cls + [('discovered=nothing',)])
            conn.close()
            return
        with open(path, 'w') as f:
            f.write(cons.to_json())
        fields = cons.to_dict()['fields']
        stage = 'verify'
        v = verify()
    except Exception as e:
        rec.case(case, cls=cls)
        raised(e)
        conn.close()
        return
    rec.case({'spec': spec, 'rex': case['rex'], 'step': 'closure'}, nontrivial=spec['nrows'] > 0, cls=cls)
    bad = [(n, k) for (n, k), ok in verdicts(v).items() if not ok]
    if bad or v.failures:
        rec.violation('own_constraints_fail', {
            'case': case,
            'mech': {'constraint_kinds': sorted(set(k for _, k in bad)),
                     'sqltypes': sorted(set(cols[n]['sqltype'] for n, _ in bad if n in cols))},
            'facts': {'failed': bad[:6], 'constraints': {n: common.jsafe(fields.get(n)) for n, _ in bad[:3]},
                      'values': {n: cols[n]['values'][:8] for n, _ in bad[:2] if n in cols}}})
        conn.close()
        return
    rec.event('closure:clean')
    # ---- perturbation steps ------------------------------------------------
    stage = 'perturb'
    names = [c['name'] for c in spec['cols']]
    for name, fc in fields.items():
        col = cols.get(name)
        if col is None:
            continue
        for kind, value in fc.items():
            if kind == 'type':
                continue
            bv = breaking_value(col, kind, value, fields)
            if isinstance(bv, str) and bv == 'IMPOSSIBLE':
                rec.note('no single row can break %s here' % kind)
                continue
            bvs = [bv]
            if F.FAMILY[col['kind']] == 'int' and isinstance(bv, int) and not isinstance(bv, bool) and abs(bv) < 2 ** 50 and kind in ('min', 'max', 'sign'):
                # SQLite keeps a value that is not a whole number as a REAL even in a column declared INTEGER: half a step
                # beyond the bound breaks it as surely as a whole step
                bvs.append((bv + value) / 2.0 if kind != 'sign' else bv / 2.0)
            if kind == 'rex':
                # a value of the column (which some expression matches) continued on further lines: '^...$' must not stop at
                # the first line end (no re.MULTILINE in the documented matching), and lone trailing text after '\n' is no match
                comps = [(re.compile(r), re.compile(r, re.U | re.S)) for r in value]
                for base in [v for v in col['values'] if isinstance(v, str) and v][:3]:
                    for tail in ('\n?? not a value ??', '\n\n', '\r\nx'):
                        cand = base + tail
                        if not any(a.match(cand) or b.match(cand) for a, b in comps):
                            bvs.append(cand)
                            rec.event('perturb:rex_multiline')
                            break
                bvs = bvs[:3]
            for bv in bvs:
                step = {'field': name, 'kind': kind, 'constraint': common.jsafe(value), 'row_value': common.jsafe(bv)}
                rec.case({'spec': spec, 'rex': case['rex'], 'step': step}, nontrivial=True, cls=[('step=' + kind,)])
                pk = spec.get('primary_key') or []
                if bv is None and pk == [name] and col['sqltype'].lower() == 'integer':
                    rec.note('a NULL in an INTEGER PRIMARY KEY column is replaced by SQLite itself')
                    continue
                try:
                    row = [bv if n == name else None for n in names]
                    for j_, n_ in enumerate(names):
                        if n_ in pk and n_ != name:
                            # the other member(s) of the key: a fresh id, or a value already there - the PAIR stays unique
                            row[j_] = 10 ** 6 + len(sql) if n_ == 'pkid' else next((T.sql_value(cols[n_], v_) for v_ in cols[n_]['values'] if v_ is not None), None)
                    if ins is not None:
                        # another process's view: the row is committed to the named file through a connection of its own
                        cur_ = ins.execute('INSERT INTO %s VALUES (%s)' % (spec['table'], ', '.join('?' * len(row))), row)
                        ins.commit()
                        try:
                            v2 = verify()
                        finally:
                            ins.execute('DELETE FROM %s WHERE rowid = ?' % spec['table'], (cur_.lastrowid,))
                            ins.commit()
                        got = verdicts(v2).get((name, kind), 'absent')
                    else:
                        conn.execute('SAVEPOINT vt')
                        conn.execute('INSERT INTO %s VALUES (%s)' % (spec['table'], ', '.join('?' * len(row))), row)
                        v2 = verify()
                        got = verdicts(v2).get((name, kind), 'absent')
                        conn.execute('ROLLBACK TO vt')
                        conn.execute('RELEASE vt')
                except Exception as e:
                    import sqlite3 as _sq
                    if isinstance(e, _sq.IntegrityError):
                        rec.note('the database itself refuses the perturbing row (key constraint)')     # nothing for tdda to notice
                    else:
                        raised(e, step)
                    try:
                        conn.execute('ROLLBACK TO vt')
                        conn.execute('RELEASE vt')
                    except Exception:
                        pass
                    continue
                rec.event('perturb:' + kind)
                if isinstance(bv, float) and F.FAMILY[col['kind']] == 'int':
                    rec.event('perturb:fraction_in_integer_column')
                if got is not False and got != 'absent' and got or got == 'absent':
                    rec.violation('violating_row_not_noticed', {
                        'case': case, 'mech': {'kind': kind, 'sqltype': col['sqltype'], 'via': 'connection-file' if via else 'handle'},
                        'facts': dict(step, verdict=repr(got), last_sql=sql[-1:])})
    try:
        stage = 'verify-after-rollback'
        v3 = verify()
        if v3.failures:
            rec.violation('not_clean_after_rollback', {'case': case, 'mech': {}, 'facts': {'failures': v3.failures}})
        else:
            rec.event('rollback:clean')
    except Exception as e:
        raised(e)
    rec.event('sql:statements', len(sql))
    rx = [q for q in sql if ' REGEXP ' in q]
    rec.event('sql:regexp_statements', len(rx))
    rec.event('sql:regexp_with_quote_in_expression', sum(1 for q in rx if "''" in q))
    conn.close()
    if ins is not None:
        ins.close()


def big_table(rng, n):
    """A text column with n+1 distinct values: n of one shape and, sorting after all of them, one of another shape."""
    width = len(str(n - 1))
    vals = ['%0*d' % (width, k) for k in range(n)] + [rng.choice(['zz-9', 'z_tail', '~', 'zq 1'])]
    rng.shuffle(vals)
    return {'table': 't_big', 'nrows': len(vals),
            'cols': [{'name': 'n', 'kind': 'int64', 'sqltype': 'integer', 'values': list(range(len(vals))), 'nulls': 'none'},
                     {'name': 'code', 'kind': 'str_obj', 'sqltype': 'text', 'values': vals, 'nulls': 'none'}]}


def run_shard(ctx):
    rng = ctx.rng
    if ctx.shard < ctx.params.get('big_tables', 2):
        # size thresholds: more distinct values than any sample or cap inside discovery is likely to take whole
        run_case(ctx, {'spec': big_table(rng, [10000, 4100, 12000, 20000][ctx.shard % 4] + rng.randrange(3)), 'rex': True, 'big': True})
        ctx.rec.event('tables:big')
    types = sorted(T.SQLTYPES)
    for i in range(ctx.params['cases']):
        spec = T.gen_table(rng, allow_pk=True)
        if i < len(types) and ctx.shard % 4 == 0:
            # directed: each SQL type once with data, so every perturbation kind is reachable
            spec = T.gen_table(rng, ncols=2, nrows=rng.choice([5, 21]))
        case = {'spec': spec, 'rex': i % 2 == 1}
        if i % 8 == 6:
            case['via'] = {'file': rng.choice(['home', 'conn']), 'file_key': rng.choice(['database', 'db']), 'db_kw': rng.choice(['db', 'database']),
                           'conn_kw': rng.choice(['conn', 'conn_file']), 'abs': rng.random() < 0.6}
        run_case(ctx, case)

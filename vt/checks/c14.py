"""C14 — rexpy results depend only on the multiset of examples and the seed; a seeded
call leaves Python's global PRNG as it found it.

Each case runs in two forked children of a shard process that itself never calls rexpy:
 * the *pristine* child makes the base call as the first rexpy call of its interpreter;
 * the *history* child first makes unrelated warm-up extractions and extractions of the SAME strings
   under the other dialects / option settings (priming the regex memo and any other state kept between
   calls), then extracts the same multiset as list / permuted lists / frequency dict (two insertion
   orders) / Series / list with one example repeated, each under several prior PRNG states.
M-PRNG records random.getstate() around every call and counts random.sample uses, so "sampling
happened" is observed, not assumed.
"""
import collections
import json
import os
import random

from vt import common
from vt.gens import rexcases as RC
from vt.gens import strings as S
from vt.monitors import contracts, forkserver, prng

ID = 'C14'
TIERS = {
    'quick': dict(shards=16, cases=300, watchdog_s=900),
    'thorough': dict(shards=16, cases=8000, big=1, switched_off=16, watchdog_s=6000),
}
RULE = ('case = history of ~25 extractions over one multiset: forms {list, 2 permutations, reversed, dict, dict in '
        'another insertion order, Series, one example repeated} x prior PRNG states x {seed, no seed}, with '
        'warm-up calls in between; half the cases use Size settings that force the sampling branches; size=False with >4000 strings must draw nothing. '
        'Non-trivial = at least 3 distinct examples; distinct = fingerprint of the case.')
ASSUMPTIONS = [
    'unseeded calls in which random.sample was actually used are random by design: only their seeded counterparts are compared',
    "'repeating an example changes nothing' is asserted without pruning options (frequencies legitimately matter to min_strings_per_pattern/max_patterns)",
    'Series input is compared only under default options (pdextract accepts none) and, as pdextract de-duplicates, against the list of distinct strings',
]
REQUIRED_MONITORS = ['sizes:sampling_switched_off_beyond_4000', 'runs:fresh_interpreters', 'prng:seeded_calls', 'prng:sampling_calls_observed', 'groups:compared', 'runs:forked']
REQUIRED_CLASSES = ['seed=1', 'seed=0', 'sampling=1', 'sampling=0']


def gen_case(rng, i):
    c = RC.gen_case(rng, None, pruning=(i % 4 == 3), allow_none=False)
    c['form'] = 'list'
    if c['kw'].get('strip') or (c['xs'] and rng.random() < 0.1):
        # raw strings that become ONE example once stripped, given unequal numbers of times
        c['kw']['strip'] = True
        for x in rng.sample(c['xs'], min(len(c['xs']), 3)):
            c['xs'] += [x + ' '] * rng.randint(0, 2) + [' ' + x] * rng.randint(0, 2) + [x.strip()] * rng.randint(0, 3)
        rng.shuffle(c['xs'])
    sampling = i % 2 == 0
    if sampling:
        c['size'] = dict(do_all=rng.choice([1, 2, 5]), do_all_exceptions=rng.choice([1, 2, 5]),
                         n_per_length=rng.choice([1, 2, 64]), max_sampled_attempts=rng.choice([1, 2, 3]))
        if rng.random() < 0.25:
            c['size']['use_sampling'] = rng.choice([False, True])     # spelled out; explicit do_all settings still decide what is sampled
        while len(set(c['xs'])) < 8:
            c['xs'] = c['xs'] + S.multiset(rng, n=10)
    elif not isinstance(c['size'], dict) or RC.effective_sampling(c):
        c['size'] = False if c['size'] is False else None        # (False / 0: the documented "don't use sampling")
    c['seed'] = rng.choice([0, 1, 7, 12345, -1, 2 ** 40]) if i % 4 < 2 else None
    c['priors'] = [rng.randrange(10 ** 6) for _ in range(2)]
    c['perm'] = rng.randrange(10 ** 6)
    c['warm'] = rng.randrange(10 ** 6)
    if c['seed'] is not None and sampling and i % 48 == 0:
        c['kw']['variableLengthFrags'] = True        # (where what was sampled most often shows in the result)
        c['fresh'] = [1, rng.randrange(2, 10 ** 6), 'random']
    return c


def variants(case):
    xs = list(case['xs'])
    pr = random.Random(case['perm'])
    out = [('list', xs, 'list')]
    p1 = xs[:]
    pr.shuffle(p1)
    out.append(('perm', p1, 'list'))
    out.append(('reversed', xs[::-1], 'list'))
    out.append(('sorted', sorted(xs), 'list'))
    out.append(('dict', xs, 'dict'))
    out.append(('dict-perm', p1, 'dict'))
    if all(x is not None for x in xs):
        out.append(('dict', xs, 'extract-bytes-dict'))       # extract(..., encoding=) on encoded examples: the same multiset
        out.append(('perm', p1, 'extract-bytes-list'))
        out.append(('dict', xs, 'extract-dict'))
    if case.get('few_variants'):
        return out[:2]
    j = pr.randrange(len(xs)) if xs else 0
    pruned = case['kw'].get('max_patterns') is not None or (case['kw'].get('min_strings_per_pattern') or 1) > 1
    if xs and not pruned:      # (how often an example occurs legitimately matters to the pruning options)
        out.append(('repeat-one', xs + [xs[j]], 'list'))
        out.append(('repeat-one-front', [xs[j]] + xs, 'list'))
    kw = case['kw']
    default_opts = (not kw['tag'] and not kw['strip'] and not kw['remove_empties'] and not kw['extra_letters']
                    and not kw['variableLengthFrags'] and kw['dialect'] == 'portable' and case['size'] is None and not pruned)
    if default_opts and not any('\x00' in x for x in xs):
        out.append(('series', xs, 'series'))
        out.append(('series', xs, 'catseries'))
    return out


def call(case, xs, form):
    c = dict(case)
    c['xs'] = xs
    c['form'] = form
    c['prng'] = None
    return RC.rex_of(RC.run_extractor(c))


def history(case):
    """Runs inside a forked child: unrelated and related warm-up calls FIRST (they fill the regex memo and
    any other state rexpy keeps between calls), then the same multiset in every form under every prior
    PRNG state.  Returns [(variant, prior, rex, state_unchanged, n_sample_calls)]."""
    prng.install()
    results = []
    wr = random.Random(case['warm'])
    for _ in range(3):
        w = RC.gen_case(wr, None, allow_none=False)
        w['form'] = 'list'
        try:
            RC.run_extractor(w)
        except Exception:
            pass
    # related calls: the SAME strings under the other dialects / option settings, so that per-character or
    # per-expression state kept between calls is primed with this case's own alphabet
    for d in RC.DIALECTS:
        if d != case['kw']['dialect']:
            try:
                RC.run_extractor(dict(case, kw=dict(case['kw'], dialect=d), form='list', prng=None))
            except Exception:
                pass
    try:
        RC.run_extractor(dict(case, kw=dict(case['kw'], extra_letters=('_' if not case['kw']['extra_letters'] else None),
                                            variableLengthFrags=not case['kw']['variableLengthFrags']), form='list', prng=None))
    except Exception:
        pass
    for name, xs, form in variants(case):
        for p in case['priors']:
            r, ok, ns = prng.around(lambda: call(case, xs, form), p)
            results.append((name, p, r, ok, ns))
    return results


def pristine(case):
    """Runs inside another forked child whose interpreter has made no rexpy call yet."""
    prng.install()
    r, ok, ns = prng.around(lambda: call(case, case['xs'], 'list'), case['priors'][0])
    return [('pristine-process', case['priors'][0], r, ok, ns)]


def _in_child(fn, case, path):
    try:
        out = {'results': fn(case)}
    except Exception as e:
        m = common.short_tb(e)
        out = {'raises': m}
    with open(path, 'w') as f:
        json.dump(out, f)
    return 0


def run_case(ctx, case):
    rec = ctx.rec
    kw = case['kw']
    seeded = case['seed'] is not None
    eff = RC.effective_sampling(case)
    rec.case(case, nontrivial=len(set(case['xs'])) >= 3,
             cls=[('seed=%d' % seeded,), ('sampling=%d' % eff,), ('dialect=' + kw['dialect'],),
                  ('n=%d' % min(60, 10 * (len(case['xs']) // 10)),)])
    results = []
    for tag, fn in (('pristine', pristine), ('history', history)):
        path = os.path.join(ctx.scratch, 'c14_%s.json' % tag)
        if os.path.exists(path):
            os.unlink(path)
        res = forkserver.fork_run(lambda: _in_child(fn, case, path), ['c14-' + tag], scratch=ctx.scratch, timeout=300)
        rec.event('runs:forked')
        if res.timed_out or not os.path.exists(path):
            rec.unspecified('watchdog: history did not finish')
            return
        out = json.load(open(path))
        if 'raises' in out:
            m = out['raises']
            rec.violation('raises', {'case': case, 'mech': {'exc': m['exc'], 'where': m['where']}, 'facts': m})
            return
        results += [tuple(x) for x in out['results']]
    if seeded and case.get('fresh'):
        # the same seeded call in fresh interpreters with other hash salts (PYTHONHASHSEED): a seed has to reproduce the
        # result from one process to the next, not only inside one
        cpath = os.path.join(ctx.scratch, 'c14_fresh_case.json')
        with open(cpath, 'w') as f:
            json.dump(dict(case, form='list'), f)
        for salt in case['fresh']:
            fr = forkserver.real_run(['-m', 'vt.aux.c14_fresh', cpath], env={'PYTHONHASHSEED': str(salt)}, timeout=300)
            if fr.status == 0 and fr.out.strip():
                rec.event('runs:fresh_interpreters')
                results.append(('fresh-interpreter-salt-%s' % salt, case['priors'][0], json.loads(fr.out.strip().splitlines()[-1]), True, 0))
            else:
                rec.unspecified('fresh interpreter did not finish')
    rec.event('groups:compared')
    mech = {'seeded': seeded, 'sampling': eff}
    for name, p, r, ok, ns in results:
        if seeded:
            rec.event('prng:seeded_calls')
            if not ok:
                rec.violation('prng_disturbed', {'case': case, 'mech': dict(mech, used_sample=ns > 0),
                                                 'facts': {'variant': name, 'prior': p, 'sample_calls': ns}})
                break
        if ns:
            rec.event('prng:sampling_calls_observed')
    if case['size'] is False and any(x[4] for x in results):
        # size=0 / size=False is documented as "don't use sampling": no draw from the PRNG may be observed, however many strings
        rec.violation('sampled_although_sampling_is_switched_off', {
            'case': dict(case, xs=case['xs'][:20] + ['... %d strings' % len(case['xs'])]), 'mech': dict(mech, n_over_4000=len(set(case['xs'])) > 4000),
            'facts': {'sample_calls': [x[4] for x in results][:6], 'results': [x[2][:4] for x in results][:4]}})
        return
    if seeded:
        comparable = results
    else:
        comparable = [x for x in results if x[4] == 0]
        if len(comparable) < len(results):
            rec.unspecified('unseeded call that really sampled (random by design)')
    if not comparable:
        return
    ref = comparable[0]
    for x in comparable[1:]:
        if x[2] != ref[2]:
            if ref[0] == 'pristine-process' and x[0] == 'list':
                factor = 'call-history' if x[1] == ref[1] else 'prior-prng-state'
            elif x[0].startswith('repeat'):
                factor = 'repeated-example'
            elif x[0].startswith('fresh-interpreter'):
                factor = 'interpreter'
            elif x[0] in ('dict', 'dict-perm', 'series'):
                factor = 'form'
            elif x[0] == 'list':
                factor = 'prior-prng-state'
            else:
                factor = 'order'
            used = bool(x[4] or ref[4])
            rec.violation('result_varies', {
                'case': case, 'mech': dict(mech, factor=factor, used_sample=used),
                'facts': {'a': [ref[0], ref[1], ref[2][:6]], 'b': [x[0], x[1], x[2][:6]],
                          'sample_calls': [ref[4], x[4]]}})
            break


def run_shard(ctx):
    # the shard process itself never calls rexpy (only imports it), so that every forked child starts
    # from an interpreter with no call history
    import pandas  # noqa
    from tdda.rexpy import rexpy  # noqa
    forkserver.warm()
    for i in range(ctx.params['cases']):
        run_case(ctx, gen_case(ctx.rng, i))
    if ctx.shard < ctx.params.get('switched_off', 2):
        # more strings than the default sizes take whole (4000 distinct), sampling switched off by size=0: ids of one shape and a
        # few of another, with extra letters of which one occurs in the rare shape only
        rng = ctx.rng
        n = rng.choice([4100, 4400, 6000])
        xs = ['id_%04d' % k for k in range(n)] + rng.choice([['id-x'], ['id-x', 'id-y'], ['zz-9']])
        rng.shuffle(xs)
        c = {'xs': xs, 'form': 'list', 'kw': dict(tag=False, strip=False, remove_empties=False, extra_letters='_-',
                                                   variableLengthFrags=rng.random() < 0.5, dialect=rng.choice(RC.DIALECTS)),
             'size': False, 'seed': None, 'pools': ['big'], 'priors': [rng.randrange(10 ** 6) for _ in range(2)], 'perm': rng.randrange(10 ** 6),
             'warm': rng.randrange(10 ** 6), 'few_variants': True}
        run_case(ctx, c)
        ctx.rec.event('sizes:sampling_switched_off_beyond_4000')
    if ctx.params.get('big'):
        from vt.checks import c03
        c = c03.big_case(ctx.rng, 4300)
        c['seed'] = 11
        c['priors'] = [1, 2]
        c['perm'] = 5
        c['warm'] = 3
        c['xs'] = c['xs'][:4300]
        run_case(ctx, c)

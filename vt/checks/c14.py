"""C14 — rexpy results depend only on the multiset of examples and the seed; a seeded
call leaves Python's global PRNG as it found it.

Each case is a *history* in one interpreter: base call, unrelated warm-up extractions
(fill the module-level regex memo), then the same multiset as list / permuted lists /
frequency dict (two insertion orders) / Series / list with one example repeated, each
under several prior PRNG states.  M-PRNG records random.getstate() around every call and
counts random.sample uses, so "sampling happened" is observed, not assumed.
"""
import collections
import random

from vt import common
from vt.gens import rexcases as RC
from vt.gens import strings as S
from vt.monitors import contracts, prng

ID = 'C14'
TIERS = {
    'quick': dict(shards=16, cases=300, watchdog_s=900),
    'thorough': dict(shards=16, cases=8000, big=1, watchdog_s=6000),
}
RULE = ('case = history of ~25 extractions over one multiset: forms {list, 2 permutations, reversed, dict, dict in '
        'another insertion order, Series, one example repeated} x prior PRNG states x {seed, no seed}, with '
        'warm-up calls in between; half the cases use Size settings that force the sampling branches. '
        'Non-trivial = at least 3 distinct examples; distinct = fingerprint of the case.')
ASSUMPTIONS = [
    'unseeded calls in which random.sample was actually used are random by design: only their seeded counterparts are compared',
    "'repeating an example changes nothing' is asserted without pruning options (frequencies legitimately matter to min_strings_per_pattern/max_patterns)",
    'Series input is compared only under default options (pdextract accepts none) and, as pdextract de-duplicates, against the list of distinct strings',
]
REQUIRED_MONITORS = ['prng:seeded_calls', 'prng:sampling_calls_observed', 'groups:compared']
REQUIRED_CLASSES = ['seed=1', 'seed=0', 'sampling=1', 'sampling=0']


def gen_case(rng, i):
    c = RC.gen_case(rng, None, pruning=False, allow_none=False)
    c['form'] = 'list'
    sampling = i % 2 == 0
    if sampling:
        c['size'] = dict(do_all=rng.choice([1, 2, 5]), do_all_exceptions=rng.choice([1, 2, 5]),
                         n_per_length=rng.choice([1, 2, 64]), max_sampled_attempts=rng.choice([1, 2, 3]))
        while len(set(c['xs'])) < 8:
            c['xs'] = c['xs'] + S.multiset(rng, n=10)
    elif not isinstance(c['size'], dict) or RC.effective_sampling(c):
        c['size'] = None
    c['seed'] = rng.choice([1, 7, 12345]) if i % 4 < 2 else None
    c['priors'] = [rng.randrange(10 ** 6) for _ in range(2)]
    c['perm'] = rng.randrange(10 ** 6)
    c['warm'] = rng.randrange(10 ** 6)
    return c


def variants(case):
    xs = list(case['xs'])
    pr = random.Random(case['perm'])
    out = [('list', xs, 'list')]
    p1 = xs[:]
    pr.shuffle(p1)
    out.append(('perm', p1, 'list'))
    out.append(('reversed', xs[::-1], 'list'))
    out.append(('sorted', sorted(xs), 'list'))
    out.append(('dict', xs, 'dict'))
    out.append(('dict-perm', p1, 'dict'))
    j = pr.randrange(len(xs)) if xs else 0
    if xs:
        out.append(('repeat-one', xs + [xs[j]], 'list'))
        out.append(('repeat-one-front', [xs[j]] + xs, 'list'))
    kw = case['kw']
    default_opts = (not kw['tag'] and not kw['strip'] and not kw['remove_empties'] and not kw['extra_letters']
                    and not kw['variableLengthFrags'] and kw['dialect'] == 'portable' and case['size'] is None)
    if default_opts and not any('\x00' in x for x in xs):
        out.append(('series', xs, 'series'))
    return out


def call(case, xs, form):
    c = dict(case)
    c['xs'] = xs
    c['form'] = form
    c['prng'] = None
    return RC.rex_of(RC.run_extractor(c))


def run_case(ctx, case):
    rec = ctx.rec
    prng.install()
    kw = case['kw']
    seeded = case['seed'] is not None
    eff = RC.effective_sampling(case)
    rec.case(case, nontrivial=len(set(case['xs'])) >= 3,
             cls=[('seed=%d' % seeded,), ('sampling=%d' % eff,), ('dialect=' + kw['dialect'],),
                  ('n=%d' % min(60, 10 * (len(case['xs']) // 10)),)])
    results = []   # (variant, prior, rex, state_ok, nsample)
    try:
        base, ok, ns = prng.around(lambda: call(case, case['xs'], 'list'), case['priors'][0])
        results.append(('first-call', case['priors'][0], base, ok, ns))
        # warm-up: unrelated extractions fill rexpy's module-level memo and move the PRNG
        wr = random.Random(case['warm'])
        for _ in range(3):
            w = RC.gen_case(wr, None, allow_none=False)
            w['form'] = 'list'
            try:
                RC.run_extractor(w)
            except Exception:
                pass
        for name, xs, form in variants(case):
            for p in case['priors']:
                r, ok, ns = prng.around(lambda: call(case, xs, form), p)
                results.append((name, p, r, ok, ns))
    except Exception as e:
        m = common.short_tb(e)
        rec.violation('raises', {'case': case, 'mech': {'exc': m['exc'], 'where': m['where']}, 'facts': m})
        return
    contracts.drain()
    rec.event('groups:compared')
    mech = {'seeded': seeded, 'sampling': eff}
    for name, p, r, ok, ns in results:
        if seeded:
            rec.event('prng:seeded_calls')
            if not ok:
                rec.violation('prng_disturbed', {'case': case, 'mech': dict(mech, used_sample=ns > 0),
                                                 'facts': {'variant': name, 'prior': p, 'sample_calls': ns}})
                break
        if ns:
            rec.event('prng:sampling_calls_observed')
    # which results are comparable?
    if seeded:
        comparable = results
    else:
        comparable = [x for x in results if x[4] == 0]
        if len(comparable) < len(results):
            rec.unspecified('unseeded call that really sampled (random by design)')
    if not comparable:
        return
    ref = comparable[0]
    for x in comparable[1:]:
        if x[2] != ref[2]:
            if x[0] == ref[0] or x[0] == 'list':
                factor = 'prior-prng-state' if x[1] != ref[1] else 'call-history'
            elif x[0] == 'first-call':
                factor = 'call-history'
            elif x[0].startswith('repeat'):
                factor = 'repeated-example'
            elif x[0] in ('dict', 'dict-perm', 'series'):
                factor = 'form'
            else:
                factor = 'order'
            used = bool(x[4] or ref[4])
            rec.violation('result_varies', {
                'case': case, 'mech': dict(mech, factor=factor, used_sample=used),
                'facts': {'a': [ref[0], ref[1], ref[2][:6]], 'b': [x[0], x[1], x[2][:6]],
                          'sample_calls': [ref[4], x[4]]}})
            break


def run_shard(ctx):
    for i in range(ctx.params['cases']):
        run_case(ctx, gen_case(ctx.rng, i))
    if ctx.params.get('big'):
        from vt.checks import c03
        c = c03.big_case(ctx.rng, 4300)
        c['seed'] = 11
        c['priors'] = [1, 2]
        c['perm'] = 5
        c['warm'] = 3
        c['xs'] = c['xs'][:4300]
        run_case(ctx, c)

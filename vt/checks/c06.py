"""C06 — detection flags exactly the violating records and agrees with verification.

Each case: verify_df and detect_df on rebuilt copies of one frame against one constraint set
with violated constraints, under a subset of {per_constraint, write_all, output_fields, index,
in_place, interleave, boolean_ints} x {no file, csv, parquet} x {no stale file, stale file from
an earlier failing run, stale unrelated file}.  Deciding monitors: M-FS (audit events +
snapshot of the output directory), hash of the input frame before/after, and the record-level
reference semantics applied row by row.
"""
import collections
import contextlib
import io
import json
import os

from vt import common
from vt.gens import constraints as GC
from vt.gens import frames as F
from vt.monitors import fsmon, reach
from vt.oracles import constraint_semantics as CS

ID = 'C06'
TIERS = {
    'quick': dict(shards=16, cases=700, wide_frames=3, watchdog_s=900),
    'thorough': dict(shards=16, cases=20000, wide_frames=40, watchdog_s=7000),
}
RULE = ('case = frame (1-4 columns, 1-60 rows, plain field names) + boundary-derived constraint set + epsilon + option '
        'subset + output format + stale-file history + index labels {default, permuted, offset, reversed, repeated}; 2 runs of tdda per case (verify, detect). Non-trivial = at least '
        'one constraint failed and its record-level meaning is documented; distinct = fingerprint.')
ASSUMPTIONS = [
    'record-level flags are judged only for failing constraints whose record-level meaning is documented (bounds of the same family as the field, etc.); a min/max bound incompatible with the field type flags every record and is left unspecified',
    'field names are plain (collisions with generated column names such as a_min_ok / n_failures are outside the property)',
    'rows in an output file are identified through the Index column or the full set of original fields when present; otherwise only their number and the multiset of n_failures are compared',
]
REQUIRED_MONITORS = ['frames:wide_many_failures_per_record', 'file:row_numbers_compared', 'verdicts:compared', 'rows:flags_compared', 'rows:n_failures_compared', 'file:exists_iff_failed',
                     'file:content_compared', 'input:unchanged_checked', 'partition:checked', 'history:stale_file',
                     'reach:write_detected_records']
REQUIRED_CLASSES = ['index=custom', 'index=repeated_labels', 'fmt=none', 'fmt=csv', 'fmt=parquet', 'per_constraint=1', 'write_all=1', 'in_place=1',
                    'interleave=1', 'boolean_ints=1', 'index=1', 'outcome=clean', 'outcome=failing',
                    'stale=earlier-run', 'stale=unrelated']
NAMES = ['a', 'b', 'c', 'd', 'colE', 'f1']
_counter = collections.Counter()
_installed = False


def install():
    global _installed
    if not _installed:
        _installed = True
        from tdda.constraints.pd import constraints as pdc
        reach.wrap_count(pdc.PandasConstraintDetector, 'write_detected_records', _counter)
        reach.wrap_count(pdc, 'convert_output_types', _counter)
        reach.wrap_count(pdc, 'save_df', _counter)


def gen_case(rng, i):
    spec = F.gen_frame(rng, nrows=rng.choice([1, 2, 3, 5, 21, 30]), pool=F.RECOGNISED)
    for j, c in enumerate(spec['cols']):
        c['name'] = NAMES[j]
    if i % 3 == 1:
        # csv output: pandas' own to_csv leaves a bare carriage return unquoted, so a file holding
        # such a text field cannot be read back by any CSV reader - not tdda's doing
        for c in spec['cols']:
            if F.FAMILY[c['kind']] == 'string':
                c['values'] = [v if v is None else v.replace('\r', ' ') for v in c['values']]
    clean = i % 6 == 5
    if clean:
        cset = None       # discovered from the frame itself -> nothing fails
    else:
        cset = GC.constraint_set(rng, spec)
    fmt = [None, 'csv', 'parquet'][i % 3]
    of = rng.choice([None, None, [], 'some'])
    if of == 'some':
        of = [c['name'] for c in spec['cols'] if rng.random() < 0.6] or [spec['cols'][0]['name']]
    opts = {'per_constraint': rng.random() < 0.6, 'write_all': rng.random() < 0.35, 'output_fields': of,
            'index': rng.random() < 0.4, 'in_place': rng.random() < 0.25, 'interleave': rng.random() < 0.25,
            'boolean_ints': rng.random() < 0.3,
            # False = "the frame came from a file": a written row-number column refers to positions in the input (from 1)
            'rownumber_is_index': not (fmt and rng.random() < 0.25)}
    n = spec['nrows']
    ik = rng.choice(['default', 'default', 'permuted', 'offset', 'reversed', 'repeated'])
    if ik == 'permuted':
        spec['index'] = rng.sample(range(n), n)
    elif ik == 'offset':
        spec['index'] = [100 + 3 * t for t in range(n)]
    elif ik == 'reversed':
        spec['index'] = list(range(n - 1, -1, -1))
    elif ik == 'repeated' and n >= 2:
        # labels that occur more than once (two batches concatenated without renumbering)
        h = rng.choice([max(1, n // 2), max(1, n // 3), 1])
        spec['index'] = [t % h for t in range(n)]
    return {'spec': spec, 'cset': cset, 'epsilon': rng.choice([None, 0, 0.01, 0.5]), 'opts': opts, 'fmt': fmt,
            'type_checking': rng.choice([None, None, 'strict', 'sloppy']),
            'stale': rng.choice([None, None, 'earlier-run', 'unrelated']) if fmt else None}


def wide_case(rng, i):
    """Many columns, each with constraints that one record breaks: that record's failure count runs into the hundreds
    (beyond what a narrow integer would hold), another record fails a handful, the last none."""
    ncols = rng.choice([43, 64, 65, 128, 130, 260])
    cols, fields = [], {}
    few = set(rng.sample(range(ncols), 3))
    for j in range(ncols):
        name = 'w%03d' % j
        cols.append({'name': name, 'kind': 'int64', 'values': [5, 5 if j in few else 0, 0], 'nulls': 'none'})
        fields[name] = {'type': 'int', 'max': 0, 'sign': 'non-positive'} if j % 3 else {'type': 'int', 'max': 0, 'sign': 'non-positive', 'max_nulls': 0, 'min': 1}
    fmt = [None, 'csv', 'parquet'][i % 3]
    opts = {'per_constraint': rng.random() < 0.5, 'write_all': rng.random() < 0.35, 'output_fields': rng.choice([None, [], ['w000', 'w001']]),
            'index': rng.random() < 0.4, 'in_place': rng.random() < 0.25, 'interleave': rng.random() < 0.25,
            'boolean_ints': rng.random() < 0.3, 'rownumber_is_index': True}
    return {'spec': {'cols': cols, 'nrows': 3}, 'cset': {'fields': fields}, 'epsilon': None, 'opts': opts, 'fmt': fmt, 'type_checking': None, 'stale': None}


def build(spec):
    """The frame, with the (possibly non-default) integer index the case asks for."""
    df = F.build_frame(spec)
    if spec.get('index') is not None:
        df.index = list(spec['index'])
    return df


def frame_fingerprint(df):
    import pandas as pd
    return (list(df.columns), [str(t) for t in df.dtypes], pd.util.hash_pandas_object(df, index=True).sum() if len(df.columns) else len(df))


def run_case(ctx, case):
    rec = ctx.rec
    install()
    import pandas as pd
    from tdda.constraints import discover_df, verify_df, detect_df
    spec, o = case['spec'], case['opts']
    cols = {c['name']: c for c in spec['cols']}
    cset = case['cset']
    err = io.StringIO()
    if cset is None:
        with contextlib.redirect_stderr(err), contextlib.redirect_stdout(err):
            cons = discover_df(build(spec))
        if cons is None:
            return
        cset = json.loads(cons.to_json())
        cset.pop('creation_metadata', None)
    case = dict(case, cset=cset)
    kw = {} if case['epsilon'] is None else {'epsilon': case['epsilon']}
    if case.get('type_checking'):
        kw['type_checking'] = case['type_checking']
    sem = {'epsilon': case['epsilon'], 'type_checking': case.get('type_checking')}
    cls = [('fmt=%s' % (case['fmt'] or 'none'),), ('type_checking=%s' % case.get('type_checking'),), ('stale=%s' % case['stale'],), ('index=%s' % ('custom' if spec.get('index') is not None else 'default'),)] + \
          ([('index=repeated_labels',)] if spec.get('index') is not None and len(set(spec['index'])) < len(spec['index']) else []) + \
          [('%s=%d' % (k, bool(o.get(k, True))),) for k in ('per_constraint', 'write_all', 'index', 'in_place', 'interleave', 'boolean_ints', 'rownumber_is_index')] + \
          [('output_fields=%s' % ('none' if o['output_fields'] is None else 'all' if o['output_fields'] == [] else 'some'),)]
    outdir = os.path.join(ctx.scratch, 'c06out')
    os.makedirs(outdir, exist_ok=True)
    for fn in os.listdir(outdir):
        os.unlink(os.path.join(outdir, fn))
    outpath = os.path.join(outdir, 'detect.' + case['fmt']) if case['fmt'] else None
    if case['stale'] == 'earlier-run':
        pd.DataFrame({'Index': [0], 'n_failures': [3]}).to_csv(outpath, index=False) if case['fmt'] == 'csv' else \
            pd.DataFrame({'Index': [0], 'n_failures': [3]}).to_parquet(outpath, index=False)
        rec.event('history:stale_file')
    elif case['stale'] == 'unrelated':
        with open(outpath, 'w') as f:
            f.write('something else entirely\n')
        rec.event('history:stale_file')
    stage = 'verify'
    try:
        with contextlib.redirect_stderr(err), contextlib.redirect_stdout(err):
            v = verify_df(build(spec), cset, repair=False, **kw)
            stage = 'detect'
            df2 = build(spec)
            fp_before = frame_fingerprint(df2)
            with fsmon.watch() as w:
                d = detect_df(df2, cset, repair=False, outpath=outpath, per_constraint=o['per_constraint'],
                              write_all=o['write_all'], output_fields=o['output_fields'], index=o['index'],
                              in_place=o['in_place'], boolean_ints=o['boolean_ints'], interleave=o['interleave'],
                              rownumber_is_index=o.get('rownumber_is_index', True), **kw)
    except Exception as e:
        m = common.short_tb(e)
        rec.case(case, cls=cls)
        src_unspec = any((CS.expected(cols[n], k, val, sem) if n in cols else None) is None
                         for n, fc in cset['fields'].items() for k, val in fc.items())
        if src_unspec:
            rec.unspecified('exception while a constraint without documented meaning was present (%s)' % m['exc'])
            return
        rec.violation('raises', {'case': case, 'mech': {'stage': stage, 'exc': m['exc'], 'where': m['where']}, 'facts': m})
        return
    vm = {(n, k): bool(ok) for n, fv in v.fields.items() for k, ok in fv.items()}
    dm = {(n, k): bool(ok) for n, fv in d.fields.items() for k, ok in fv.items()}
    failing = sorted(k for k, ok in dm.items() if not ok)
    rec.event('verdicts:compared')
    cls.append(('outcome=%s' % ('failing' if failing else 'clean'),))
    if vm != dm:
        rec.violation('detect_and_verify_disagree', {'case': case, 'mech': {'kinds': sorted(set(k for (n, k) in vm if vm[(n, k)] != dm.get((n, k))))},
                                                     'facts': {'verify': common.jsafe({str(k): x for k, x in vm.items() if dm.get(k) != x})}})
    # record-level expectation
    nrows = spec['nrows']
    flags = {}
    documented = True
    for (n, k) in failing:
        if n not in cols:
            continue           # missing field: no records to flag
        cval = cset['fields'][n][k]
        f = CS.row_flags(cols[n], k, cval, sem)
        verification_reading = (k in ('min', 'max') and isinstance(cval, dict) and cval.get('precision') == 'open'
                                and isinstance(cval.get('value'), str) and F.FAMILY[cols[n]['kind']] == 'date') or \
                               (k == 'allowed_values' and isinstance(cval, list) and F.FAMILY[cols[n]['kind']] in ('int', 'real')
                                and all(isinstance(x, (int, float)) and not isinstance(x, bool) for x in cval))
        if f is None and verification_reading:
            # "open" on a date bound: the documentation does not say whether a record ON the bound violates it;
            # allowed_values on a numeric field: "currently only used for string fields", yet verified by value.
            # Either reading is accepted - but detection must flag records under the SAME reading that
            # verification applies on this tree (the property ties detection to verification): a record
            # violates iff the one-record frame holding it fails the constraint under verify_df
            f = []
            try:
                with contextlib.redirect_stderr(err), contextlib.redirect_stdout(err):
                    bdt = CS.parse_dt(cval['value']) if k != 'allowed_values' else None
                    for val in cols[n]['values']:
                        if val is None:
                            f.append(None)
                            continue
                        if bdt is not None:
                            vdt = CS.parse_dt(val)
                            if vdt[0] == bdt[0] and vdt[1] != bdt[1]:
                                raise ValueError('sub-microsecond difference from the bound: no reading is documented')
                        one = build({'cols': [dict(cols[n], values=[val])], 'nrows': 1})
                        fc1 = {k: cval}
                        if 'type' in cset['fields'][n]:
                            fc1['type'] = cset['fields'][n]['type']       # (a date bound is only read as a date next to its type)
                        v1 = verify_df(one, {'fields': {n: fc1}}, repair=False, **kw)
                        f.append(bool(v1.fields[n][k]))
                rec.event('flags:verification_reading_used')
            except Exception:
                f = None
            if f is None:
                documented = False
        elif f is None or CS.expected(cols[n], k, cval, sem) is None:
            documented = False
        flags[(n, k)] = f
    rec.case(case, nontrivial=bool(failing) and documented, cls=cls)
    # ---- file exists iff something failed ---------------------------------------
    if outpath:
        rec.event('file:exists_iff_failed')
        exists = os.path.exists(outpath)
        if exists != bool(failing):
            rec.violation('output_file_existence', {'case': case, 'mech': {'exists': exists, 'failing': bool(failing), 'stale': case['stale']},
                                                    'facts': {'failing': [list(x) for x in failing[:4]]}})
        stray = [p for p in w.written_paths() if os.path.abspath(p) != os.path.abspath(outpath)]
        if stray:
            rec.violation('writes_elsewhere', {'case': case, 'mech': {}, 'facts': {'paths': stray[:4]}})
    elif w.written_paths():
        rec.violation('writes_without_outpath', {'case': case, 'mech': {}, 'facts': {'paths': sorted(w.written_paths())[:4]}})
    # ---- input frame ------------------------------------------------------------------
    rec.event('input:unchanged_checked')
    fresh = build(spec)
    if o['in_place']:
        same = list(df2.columns)[:len(fresh.columns)] == list(fresh.columns) and frame_fingerprint(df2[list(fresh.columns)]) == fp_before
    else:
        same = frame_fingerprint(df2) == fp_before
    if not same:
        rec.violation('input_frame_modified', {'case': case, 'mech': {'in_place': o['in_place']}, 'facts': {'columns': [str(c) for c in df2.columns]}})
    det = d.detected()
    if not failing:
        if det is not None and len(det) and not o['write_all']:
            rec.violation('records_detected_without_failure', {'case': case, 'mech': {}, 'facts': {'n': len(det)}})
        return
    if d.detection is None:
        if any(n in cols for n, _ in failing):
            rec.violation('no_detection_object', {'case': case, 'mech': {}, 'facts': {}})
        return
    # ---- partition ------------------------------------------------------------------------
    rec.event('partition:checked')
    npass, nfail = int(d.detection.n_passing_records), int(d.detection.n_failing_records)
    if npass + nfail != nrows:
        rec.violation('records_not_partitioned', {'case': case, 'mech': {}, 'facts': {'passing': npass, 'failing': nfail, 'rows': nrows}})
    if not documented:
        rec.unspecified('a failing constraint has no documented record-level meaning')
        return
    exp_nf = [sum(1 for f in flags.values() if f[i] is False) for i in range(nrows)]
    exp_fail_rows = [i for i in range(nrows) if exp_nf[i] > 0]
    mech_kinds = sorted(set(k for _, k in flags))
    if nfail != len(exp_fail_rows):
        rec.violation('failing_record_count', {'case': case, 'mech': {'kinds': mech_kinds}, 'facts': {'reported': nfail, 'true': len(exp_fail_rows)}})
    # ---- output frame -------------------------------------------------------------------------
    rec.event('rows:n_failures_compared')
    want_rows = list(range(nrows)) if o['write_all'] else exp_fail_rows
    labels = list(spec['index']) if spec.get('index') is not None else list(range(nrows))
    want_labels = [labels[i] for i in want_rows]
    got_rows = [int(x) for x in det.index]
    if 'Index' in det.columns and 'Index' not in cols and got_rows != want_labels:
        # typed (parquet) output: tdda moves the row labels into an 'Index' column of the very frame it
        # returns; the records are identified through that column then (observation, not a violation)
        got_rows = [int(x) for x in det['Index']]
        rec.note('returned detection frame carries its row labels in an Index column (parquet output)')
    if got_rows != want_labels:
        rec.violation('output_frame_rows', {'case': case, 'mech': {'kinds': mech_kinds, 'write_all': o['write_all'], 'index': 'custom' if spec.get('index') is not None else 'default'},
                                            'facts': {'rows': got_rows[:10], 'expected': want_labels[:10]}})
    else:
        got_nf = [int(x) for x in det['n_failures']]
        if got_nf != [exp_nf[i] for i in want_rows]:
            rec.violation('n_failures_per_record', {'case': case, 'mech': {'kinds': mech_kinds},
                                                    'facts': {'reported': got_nf[:10], 'true': [exp_nf[i] for i in want_rows][:10]}})
        if o['per_constraint']:
            rec.event('rows:flags_compared')
            from tdda.constraints.pd.constraints import verification_field
            for (n, k), f in flags.items():
                cname = verification_field(n, k)
                if cname not in det.columns:
                    rec.violation('flag_column_missing', {'case': case, 'mech': {'kind': k}, 'facts': {'column': cname, 'columns': [str(c) for c in det.columns]}})
                    continue
                colv = list(det[cname])
                for pos, i in enumerate(want_rows):
                    cell = colv[pos]
                    is_false = (cell is False) or (not pd.isnull(cell) and cell == False)   # noqa: E712
                    if is_false != (f[i] is False):
                        rec.violation('record_flag_wrong', {
                            'case': case, 'mech': {'kind': k, 'family': F.FAMILY[cols[n]['kind']], 'null_value': cols[n]['values'][i] is None,
                                                   'want_false': f[i] is False},
                            'facts': {'field': n, 'row': i, 'value': cols[n]['values'][i], 'constraint': cset['fields'][n][k], 'cell': repr(cell)}})
                        break
    # ---- output file content ------------------------------------------------------------------------
    if outpath and os.path.exists(outpath):
        rec.event('file:content_compared')
        try:
            fdf = pd.read_parquet(outpath) if case['fmt'] == 'parquet' else pd.read_csv(outpath, dtype=str, keep_default_na=False)
        except Exception as e:
            rec.violation('output_file_unreadable', {'case': case, 'mech': {'fmt': case['fmt']}, 'facts': {'error': str(e)[:200]}})
            return
        if 'n_failures' not in fdf.columns:
            rec.violation('output_file_no_n_failures', {'case': case, 'mech': {'fmt': case['fmt']}, 'facts': {'columns': list(fdf.columns)}})
            return
        try:
            fnf = [int(x) for x in fdf['n_failures']]
        except (TypeError, ValueError):
            rec.violation('output_file_n_failures_cells', {'case': case, 'mech': {'fmt': case['fmt']},
                                                           'facts': {'cells': [repr(x) for x in fdf['n_failures']][:10], 'columns': list(fdf.columns),
                                                                     'head': fdf.head(3).to_dict('records')}})
            return
        want_nf = [exp_nf[i] for i in want_rows]
        if 'Index' in fdf.columns and len(spec['cols']) and 'Index' not in cols:
            frows = [int(x) for x in fdf['Index']]
            if frows != want_labels or fnf != want_nf:
                rec.violation('output_file_rows', {'case': case, 'mech': {'fmt': case['fmt'], 'write_all': o['write_all'], 'index': 'custom' if spec.get('index') is not None else 'default'},
                                                   'facts': {'rows': frows[:10], 'expected': want_labels[:10], 'n_failures': fnf[:10], 'true': want_nf[:10]}})
        elif 'RowNumber' in fdf.columns and 'RowNumber' not in cols and not o.get('rownumber_is_index', True):
            rec.event('file:row_numbers_compared')
            try:
                frows = [int(x) for x in fdf['RowNumber']]
            except (TypeError, ValueError):
                frows = [repr(x) for x in fdf['RowNumber']]
            want_pos = [i + 1 for i in want_rows]
            if frows != want_pos or fnf != want_nf:
                rec.violation('output_file_rows', {'case': case, 'mech': {'fmt': case['fmt'], 'write_all': o['write_all'], 'numbering': 'RowNumber',
                                                                          'index': 'custom' if spec.get('index') is not None else 'default'},
                                                   'facts': {'RowNumber': frows[:10], 'expected_positions': want_pos[:10], 'n_failures': fnf[:10], 'true': want_nf[:10]}})
        elif fnf != want_nf:
            rec.violation('output_file_rows', {'case': case, 'mech': {'fmt': case['fmt'], 'write_all': o['write_all']},
                                               'facts': {'n_failures': fnf[:10], 'true': want_nf[:10]}})
        if o['per_constraint'] and case['fmt'] == 'csv':
            from tdda.constraints.pd.constraints import verification_field
            t, f_ = ('1', '0') if o['boolean_ints'] else ('true', 'false')
            for (n, k), f in flags.items():
                cname = verification_field(n, k)
                if cname in fdf.columns:
                    cells = list(fdf[cname])
                    bad = [c for c in cells if c not in (t, f_, '')]
                    wantf = [f[i] is False for i in want_rows]
                    gotf = [c == f_ for c in cells]
                    if bad or (len(cells) == len(want_rows) and gotf != wantf):
                        rec.violation('output_file_flag_cells', {'case': case, 'mech': {'kind': k, 'boolean_ints': o['boolean_ints'], 'bad_spelling': bool(bad)},
                                                                 'facts': {'column': cname, 'cells': cells[:10], 'want_false': wantf[:10]}})


def run_shard(ctx):
    for i in range(ctx.params.get('wide_frames', 2)):
        run_case(ctx, wide_case(ctx.rng, i + ctx.shard))
        ctx.rec.event('frames:wide_many_failures_per_record')
    for i in range(ctx.params['cases']):
        run_case(ctx, gen_case(ctx.rng, i))
    for k, v in _counter.items():
        ctx.rec.event('reach:' + k, v)
    _counter.clear()

"""C11 — gentest: for a repeatable command the generated test exists, compiles and passes;
generation leaves every other file alone.

Each case is a generated deterministic sh command (certified repeatable by two bare runs),
a real `tdda gentest` process (M-FORK), M-FS snapshots of the whole working directory before
and after generation, compile() of the generated script, and a real run of that script.
"""
import os

from vt import common
from vt.checks import gentest_common as G
from vt.gens import commands as GC
from vt.monitors import fsmon

ID = 'C11'
TIERS = {
    'quick': dict(shards=16, cases=80, watchdog_s=900),
    'thorough': dict(shards=16, cases=3000, watchdog_s=7000),
}
RULE = ('case = deterministic sh command (0-7 stdout lines, 0-3 stderr lines, 0-3 text/binary output files, exit status '
        '0/1/3/255; text mixes words, numbers, quotes, backslashes, regex metacharacters, unicode, date-/time-/version-/'
        'path-like tokens and, in a third of cases, this run\'s user/host/cwd/today tokens) x iterations 1-3 x --no-stdout/'
        '--no-stderr/--non-zero-exit x script name {test_x.py, x, x.py, absolute, omitted} x reference files named '
        'explicitly / "." / glob / none x working directory with decoy files and optionally a previous generation. '
        '3-4 real processes per case. Non-trivial = command with some output; distinct = fingerprint.')
ASSUMPTIONS = [
    'the command is run through sh in the working directory; user/home are set through LOGNAME/HOME so the machine-specific tokens of a run are known',
    'files the generator may change: the script, ref/<name>/**, the command\'s own output files (content must equal what a bare run produces) and __pycache__',
    'outputs that are not valid UTF-8 are left unspecified',
]
REQUIRED_MONITORS = ['gentest:runs', 'script:compiled', 'script:run', 'fs:workdir_compared']
REQUIRED_CLASSES = ['refmode=explicit', 'refmode=dot', 'refmode=none', 'refmode=glob', 'script=test_gen.py', 'script=gen',
                    'script=ABS', 'script=OMIT', 'iterations=1', 'iterations=2', 'iterations=3', 'datelike=1']


def run_case(ctx, case):
    rec = ctx.rec
    spec = case['spec']
    alltext = ' '.join(spec['stdout'] + spec['stderr'] + [l for f in spec['files'] if f['kind'] == 'text' for l in f['lines']])
    from vt.gens import commands as GC
    datelike = any(d in alltext for d in GC.DATELIKE + GC.VERSIONLIKE)
    cls = [('refmode=' + case['refmode'],), ('script=' + case['script'],), ('iterations=%d' % case['iterations'],),
           ('datelike=%d' % datelike,), ('tmpdir_outputs=%d' % any(f['name'].startswith(GC.TMP_PREFIX) for f in spec['files']),), ('status=%d' % spec['status'],), ('nfiles=%d' % len(spec['files']),),
           ('flags=' + ','.join(f for f in case['flags'] if f.startswith('--no') or f == '--non-zero-exit'),)]
    g = G.generate(ctx, case)
    if g is None:
        return
    rec.case(case, nontrivial=bool(spec['stdout'] or spec['stderr'] or spec['files']), cls=cls)
    mech = {'refmode': case['refmode'], 'script': case['script']}
    if g.res.status != 0 or g.res.timed_out:
        exc = None
        import re
        m = re.findall(r'^(\w+(?:Error|Exception)): (.*)$', g.res.err, re.M)
        where = re.findall(r'File ".*?/tdda/([\w/]+\.py)", line \d+, in (\w+)', g.res.err)
        rec.violation('generation_fails', {'case': case, 'mech': {'exc': m[-1][0] if m else None, 'where': '%s:%s' % where[-1] if where else None,
                                                                  'status': g.res.status},
                                           'facts': {'stderr': g.res.err[-700:], 'argv': g.argv, 'msg': m[-1][1][:200] if m else None}})
        return
    if not os.path.exists(g.script):
        rec.violation('script_missing', {'case': case, 'mech': mech, 'facts': {'expected': g.script, 'files': sorted(os.listdir(g.workdir)), 'stdout': g.res.out[-400:]}})
        return
    src = open(g.script).read()
    try:
        compile(src, g.script, 'exec')
        rec.event('script:compiled')
    except SyntaxError as e:
        rec.violation('script_does_not_compile', {'case': case, 'mech': mech, 'facts': {'error': str(e), 'line': (src.splitlines() + [''])[max(0, (e.lineno or 1) - 1)][:200]}})
        return
    flags = case['flags']
    want_refs = []
    if '--no-stdout' not in flags:
        want_refs.append('STDOUT')
    if '--no-stderr' not in flags:
        want_refs.append('STDERR')
    tmp_tracked = not case.get('wizard') or case['wizard']['tmpdir_tracking']
    if case['refmode'] != 'none':
        want_refs += [os.path.basename(f['name']) for f in spec['files'] if not f['name'].startswith(GC.TMP_PREFIX) or tmp_tracked]
    # (gentest stores a second file with the same name - compared case-insensitively - under name+number)
    have = os.listdir(g.refdir) if os.path.isdir(g.refdir) else []
    missing = [r for r in want_refs if not any(h == r or (h.startswith(r) and h[len(r):].isdigit()) for h in have)]
    if missing:
        rec.violation('reference_files_missing', {'case': case, 'mech': dict(mech, which=sorted(set('stream' if m in ('STDOUT', 'STDERR') else 'file' for m in missing))),
                                                  'facts': {'missing': missing, 'refdir': sorted(os.listdir(g.refdir)) if os.path.isdir(g.refdir) else None}})
    # ---- what generation changed in the working directory ---------------------------
    rec.event('fs:workdir_compared')
    d = fsmon.diff(g.before, g.after)
    allowed_prefix = ('ref/%s/' % g.refname, '__pycache__/')
    script_rel = os.path.relpath(g.script, g.workdir)
    outs = set(g.bare[3])
    touched = [p for p in d['created'] + d['removed'] + d['modified'] if not p.endswith('/')]
    bad = [p for p in touched if p != script_rel and not p.startswith(allowed_prefix) and p not in outs
           and not p.endswith('.pyc')]
    if bad:
        rec.violation('generation_touches_other_files', {'case': case, 'mech': dict(mech, decoy=any(b in G.DECOYS for b in bad)),
                                                         'facts': {'paths': bad, 'diff': d}})
    for fn, data in g.bare[3].items():
        if GC.elsewhere(fn):
            continue                      # written under $TMPDIR / $HOME, not in the working directory
        if any(f['name'] == fn and f['kind'] == 'text' and any(GC.TMPDIR_TOKEN in l for l in f['lines']) for f in spec['files']):
            continue                      # its content names the run's own $TMPDIR: every run writes another
        p = os.path.join(g.workdir, fn)
        if not os.path.exists(p):
            rec.violation('command_output_removed', {'case': case, 'mech': mech, 'facts': {'file': fn}})
        elif open(p, 'rb').read() != data:
            rec.violation('command_output_altered', {'case': case, 'mech': mech, 'facts': {'file': fn}})
    # ---- run the generated test straight afterwards -----------------------------------
    res = G.run_script(ctx, g)
    rec.event('script:run')
    if case['decoys']:
        gone = [rel for rel, data in G.DECOYS.items() if not os.path.exists(os.path.join(g.workdir, rel))
                or open(os.path.join(g.workdir, rel), 'rb').read() != data]
        gone = [r_ for r_ in gone if not (r_ == 'test_other.py' and False)]
        if gone:
            rec.violation('pre_existing_file_lost_when_test_runs', {'case': case, 'mech': mech, 'facts': {'files': gone}})
    if case.get('linked_store'):
        rec.event('fs:linked_directory_checked')
        sp = os.path.join(g.root, 'store', 'lookup.csv')
        if not os.path.exists(sp) or open(sp).read() != 'k,v\n1,one\n':
            rec.violation('pre_existing_file_lost_when_test_runs', {'case': case, 'mech': dict(mech, through='linked directory'),
                                                                    'facts': {'files': ['linked/lookup.csv'], 'exists': os.path.exists(sp)}})
    if res.status != 0 or res.failed or not res.n_tests:
        rec.violation('generated_test_does_not_pass', {
            'case': case, 'mech': {'failed': res.failed, 'status': res.status,
                                   'kinds': sorted(set(f['kind'] for f in spec['files'])) if any('out' in t for t in res.failed) else None},
            'facts': {'stderr': res.err[-900:], 'failed': res.failed, 'n_tests': res.n_tests}})


def run_shard(ctx):
    for i in range(ctx.params['cases']):
        run_case(ctx, G.gen_case(ctx.rng, i + ctx.shard * 1000))

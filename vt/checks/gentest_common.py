"""Shared workload for the gentest properties (C11: generated test exists, compiles, passes;
C12: it fails when the command behaves differently)."""
import ast
import os
import re
import shutil
import socket
import subprocess

from vt import common
from vt.gens import commands as GC
from vt.monitors import forkserver, fsmon

USER = 'vtuser77'
DECOYS = {'decoy.txt': b'keep me\n', 'notes.md': b'# notes\nline\n', 'sub/deep.bin': b'\x00\x01\x02', 'test_other.py': b'# another test\n',
          'ref/other/STDOUT': b'someone else\n'}


def console_main():
    from tdda.constraints import console
    return console.main()


def machine_tokens(workdir, home):
    host = socket.gethostname()
    toks = {'user': USER, 'host': host, 'cwd': workdir, 'home': home}
    try:
        toks['ip'] = socket.gethostbyname(host)
    except Exception:
        pass
    return toks


def gen_case(rng, i):
    mix = rng.random() < 0.35
    spec_tokens = [USER, 'HOSTTOKEN', 'IPTOKEN', 'CWDTOKEN', 'HOMETOKEN/.toolrc', 'HOMETOKEN'] + GC.today_tokens() if mix else []
    if not mix and rng.random() < 0.25:
        spec_tokens = GC.near_dates()          # dates close to the run, but outside the window gentest treats as "now"
    if mix and rng.random() < 0.5:
        # the command reports where it put things: the directory it runs in next to its (per-run) temporary directory
        spec_tokens = spec_tokens + ['copied CWDTOKEN/in.txt to %s/out.txt' % GC.TMPDIR_TOKEN, GC.TMPDIR_TOKEN + '/scratch', 'CWDTOKEN/data -> ' + GC.TMPDIR_TOKEN]
    spec = GC.gen_command(rng, spec_tokens, i)
    if spec_tokens and not mix:
        near = spec_tokens
        for ls in [spec['stdout'], spec['stderr']] + [f['lines'] for f in spec['files'] if f['kind'] == 'text']:
            for k in range(len(ls)):
                if rng.random() < 0.5:
                    ls[k] = ls[k] + ' due ' + rng.choice(near)
    flags = []
    it = rng.choice([1, 2, 2, 3])
    if any(f.get('repeat') for f in spec['files']) and rng.random() < 0.6:
        it = 1               # (with one run there is no second copy to compare, so classification rests on the file alone)
    flags += ['--iterations', str(it)] if it != 2 or rng.random() < 0.3 else []
    if rng.random() < 0.15:
        flags.append('--no-stdout')
    if rng.random() < 0.15:
        flags.append('--no-stderr')
    if spec['status'] != 0 or rng.random() < 0.2:
        flags.append('--non-zero-exit')
    script = rng.choice(['test_gen.py', 'test_gen.py', 'gen', 'gen.py', 'ABS', 'OMIT', 'test__other.py', 'test__gen'])
    # ('test__other.py' keeps its references in ref/_other, beside the decoy suite test_other.py with its ref/other)
    names = [f['name'] for f in spec['files'] if not f['name'].startswith(GC.TMP_PREFIX)]
    refmode = rng.choice(['explicit', 'dot', 'none', 'glob']) if names else rng.choice(['none', 'dot'])
    if refmode == 'glob' and not all(n.startswith('out') and '/' not in n for n in names):
        refmode = 'explicit'
    if any(n.startswith('../') or n.startswith(GC.HOME_PREFIX) for n in names):
        refmode = 'explicit'             # files outside the working directory are only checked when named
    if script == 'OMIT':
        refmode = 'none'
    # the command line itself may hold quotes, backslashes and non-ASCII text (extra parameters the script ignores)
    cmd_tail = ''
    if script != 'OMIT' and rng.random() < 0.25:
        cmd_tail = rng.choice([" 'x\"\"\"y'", ' "it\'s"', " back\\\\slash", " 'bs\\x'", " 'ends\\'", ' ünï', ' # note \"\"\"', " '%s %d'", ' a  b'])
    case = {'spec': spec, 'flags': flags, 'iterations': it, 'script': script, 'refmode': refmode, 'decoys': rng.random() < 0.7,
            'cmd_tail': cmd_tail, 'linked_store': rng.random() < 0.15,
            'previous_generation': rng.random() < 0.2, 'flags_first': rng.random() < 0.5, 'old_decoys': rng.random() < 0.6,
            'cwd_in_home': rng.random() < 0.5}         # the working directory lies inside $HOME (as most do)
    if rng.random() < 0.2:
        # the same request put through gentest's question-and-answer wizard (`tdda gentest` with no parameters),
        # which alone offers to switch off the tracking of files written under gentest's $TMPDIR
        case['wizard'] = {'tmpdir_tracking': rng.random() < 0.5, 'spell_yes': rng.choice(['y', 'yes', '', 'Y']),
                          'spell_no': rng.choice(['n', 'no', 'N'])}
        if case['refmode'] == 'glob':
            case['refmode'] = 'explicit'       # the wizard takes file and directory names, not shell patterns
    return case


def bare_run(workdir, env, mut=None, names=None):
    e = dict(os.environ)
    e.update(env)
    if mut is not None:
        e['VT_MUT'] = str(mut)
    else:
        e.pop('VT_MUT', None)
    p = subprocess.run('sh cmd.sh', shell=True, cwd=workdir, env=e, stdout=subprocess.PIPE, stderr=subprocess.PIPE, timeout=60)
    files = {}
    for fn in (names or []):
        rp = GC.real_path(fn, workdir, e.get('TMPDIR', '/tmp'), e.get('HOME'))
        if os.path.isfile(rp):
            files[fn] = open(rp, 'rb').read()
    return (p.returncode, p.stdout, p.stderr, files)


class Generated(object):
    pass


def generate(ctx, case, tag='g'):
    """Sets up the working directory, certifies determinism, runs `tdda gentest` for real.
    Returns a Generated object or None (case discarded)."""
    rec = ctx.rec
    root = os.path.join(ctx.scratch, 'gt_' + tag)
    shutil.rmtree(root, ignore_errors=True)
    home = os.path.join(root, 'home')
    workdir = os.path.join(home, 'proj', 'work') if case.get('cwd_in_home') else os.path.join(root, 'work')
    os.makedirs(home)
    os.makedirs(workdir)
    spec = case['spec']
    toks = machine_tokens(workdir, home)
    # late-bind the host/cwd placeholders the generator could not know
    def fix(l):
        return l.replace('HOSTTOKEN', toks['host']).replace('IPTOKEN', toks.get('ip') or '10.1.2.3').replace('CWDTOKEN', workdir).replace('HOMETOKEN', home)
    for k in ('stdout', 'stderr'):
        spec[k] = [fix(l) for l in spec[k]]
    for f in spec['files']:
        if f['kind'] == 'text':
            f['lines'] = [fix(l) for l in f['lines']]
    if any(workdir in l for k in ('stdout', 'stderr') for l in spec[k]) or \
            any(workdir in l for f in spec['files'] if f['kind'] == 'text' for l in f['lines']):
        spec['machine'] = {'cwd': workdir}        # (lets a later change of behaviour mention the same machine-specific text)
    with open(os.path.join(workdir, 'cmd.sh'), 'w') as f:
        f.write(GC.render(spec))
    if case['decoys']:
        for rel, data in DECOYS.items():
            p = os.path.join(workdir, rel)
            os.makedirs(os.path.dirname(p), exist_ok=True)
            with open(p, 'wb') as f:
                f.write(data)
            if case.get('old_decoys', True):
                os.utime(p, (1500000000, 1500000000))      # mtime in 2017, ctime now
    if case.get('linked_store'):
        # a link, inside the working directory, to a directory elsewhere that holds data the command never touches
        os.makedirs(os.path.join(root, 'store'))
        with open(os.path.join(root, 'store', 'lookup.csv'), 'w') as f:
            f.write('k,v\n1,one\n')
        os.utime(os.path.join(root, 'store', 'lookup.csv'), (1500000000, 1500000000))
        os.symlink(os.path.relpath(os.path.join(root, 'store'), workdir), os.path.join(workdir, 'linked'))
    env = {'LOGNAME': USER, 'USER': USER, 'HOME': home, 'TDDA_FAIL_DIR': os.path.join(root, 'fail')}
    os.makedirs(env['TDDA_FAIL_DIR'])
    try:
        allnames = [f['name'] for f in spec['files']]
        r1 = bare_run(workdir, env, names=allnames)
        r2 = bare_run(workdir, env, names=allnames)
    except subprocess.TimeoutExpired:
        return None
    if r1 != r2:
        rec.note('case discarded: command is not repeatable')
        return None
    try:
        r1[1].decode('utf-8'), r1[2].decode('utf-8')
    except UnicodeDecodeError:
        rec.unspecified('command output is not valid UTF-8')
        return None
    g = Generated()
    g.root, g.workdir, g.home, g.env, g.tokens, g.bare = root, workdir, home, env, toks, r1
    sname = case['script']
    if sname == 'ABS':
        sarg = os.path.join(workdir, 'test_gen.py')
    elif sname == 'OMIT':
        sarg = None
    else:
        sarg = sname
    names = [f['name'] for f in spec['files'] if not f['name'].startswith(GC.TMP_PREFIX)]     # (gentest watches its own $TMPDIR itself)
    names = ['~/' + n[len(GC.HOME_PREFIX):] if n.startswith(GC.HOME_PREFIX) else n for n in names]   # (the documented ~ spelling)
    refs = {'explicit': names, 'dot': ['.'], 'none': [], 'glob': ['out*']}[case['refmode']]
    command = 'sh cmd.sh' + case.get('cmd_tail', '')
    pos = [command] + ([sarg] + refs if sarg else [])
    argv = ['gentest'] + (case['flags'] + pos if case['flags_first'] else pos + case['flags'])
    g.argv = argv
    g.stdin = None
    wz = case.get('wizard')
    if wz:
        yes, no = wz['spell_yes'], wz['spell_no']
        fl = case['flags']
        answers = [command, sarg or '', yes if case['refmode'] == 'dot' else no, yes if wz['tmpdir_tracking'] else no]
        answers += [r for r in refs if r != '.'] + ['']
        answers += [no if '--no-stdout' in fl else yes, no if '--no-stderr' in fl else yes, no if '--non-zero-exit' in fl else yes,
                    yes, str(case['iterations']) if '--iterations' in fl or case['iterations'] != 2 else '']
        g.argv = argv = ['gentest']
        g.stdin = ('\n'.join(answers) + '\n').encode('utf-8')
        rec.event('gentest:wizard_runs')
    if sarg is None:
        g.script = os.path.join(workdir, 'test_' + ''.join(c if c.isalnum() else '_' for c in 'sh cmd.sh') + '.py')
    else:
        base = os.path.basename(sarg)
        stem = base[:-3] if base.endswith('.py') else base
        if not stem.startswith('test'):
            stem = 'test_' + stem
        g.script = os.path.join(workdir, stem + '.py')
    stem_ = os.path.basename(g.script)[4:-3]
    g.refname = stem_[1:] if stem_.startswith('_') else stem_        # (one underscore belongs to "test_", the rest to the name)
    g.refdir = os.path.join(workdir, 'ref', g.refname)
    if case['previous_generation']:
        forkserver.fork_run(console_main, ['tdda'] + argv, cwd=workdir, env=env, scratch=ctx.scratch, stdin_bytes=g.stdin)
    g.before = fsmon.snapshot(workdir)
    g.res = forkserver.fork_run(console_main, ['tdda'] + argv, cwd=workdir, env=env, scratch=ctx.scratch, timeout=120, stdin_bytes=g.stdin)
    g.after = fsmon.snapshot(workdir)
    rec.event('gentest:runs')
    return g


def run_script(ctx, g, mut=None):
    env = dict(g.env)
    env['VT_MUT'] = str(mut) if mut is not None else None
    res = forkserver.fork_run(g.script, [g.script], cwd=g.workdir, env=env, scratch=ctx.scratch, timeout=120)
    m = re.search(r'^Ran (\d+) tests?', res.err, re.M)
    res.n_tests = int(m.group(1)) if m else None
    res.failed = sorted(set(re.findall(r'^(?:FAIL|ERROR): (\w+) \(', res.err, re.M)))
    return res


def script_exclusions(path):
    """AST hook: every ignore_substrings / ignore_patterns / remove_lines literal in the generated script."""
    out = {'substrings': [], 'patterns': [], 'removals': []}
    try:
        tree = ast.parse(open(path).read())
    except SyntaxError:
        return None
    for node in ast.walk(tree):
        if isinstance(node, ast.Assign) and len(node.targets) == 1 and isinstance(node.targets[0], ast.Name) \
                and node.targets[0].id in out and isinstance(node.value, ast.List):
            for el in node.value.elts:
                if isinstance(el, ast.Constant):
                    out[node.targets[0].id].append(el.value)
                else:
                    out[node.targets[0].id].append('<expr:%s>' % ast.dump(el)[:40])
    return out


def test_name_for_file(name):
    """Prefix of the generated test's name (gentest appends a number when two files collide)."""
    return 'test_' + ''.join(c if c.isalnum() else '_' for c in os.path.basename(name))

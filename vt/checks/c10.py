"""C10 — references are rewritten only on request, and a regenerated reference passes.

A case is a *history*: 1-8 assertions (string / text file / list of text files / binary file /
DataFrame->parquet / DataFrame->csv / on-disk frame; kind labels None, csv, table, graph,
other, or omitted) against references that match, differ or are missing, executed under a
regeneration setting established either through set_regeneration() or through the real
ReferenceTestCase.main with an argv spelling - each history in its own forked process (the
regeneration table is class-level state), followed by the same history in normal mode in a
fresh process, and (API variant) by the same assertion in the same process after
set_regeneration(kind, False).  Deciding monitor: M-FS around every single assertion (audit
events + snapshots of the reference tree: content hash, mtime, inode).  The oracle is an
offline checker over the recorded step log.
"""
import json
import os
import shutil

from vt import common
from vt.monitors import forkserver, fsmon

ID = 'C10'
TIERS = {
    'quick': dict(shards=16, histories=120, watchdog_s=900),
    'thorough': dict(shards=16, histories=3000, watchdog_s=7000),
}
RULE = ('case = history of 1-8 assertions x reference state {matching, differing, missing} x kind label x regeneration '
        'setting {normal, all, named kinds} given by API or by argv spelling (-W, --write-all, --W, -w k, --w k, --write '
        'k1 k2, --write k1,k2, mixtures, with --wquiet / -v / -1 mixed in), frame assertions with and without actual_path; 2-3 real processes per history. evaluations counts '
        'monitored assertions. Non-trivial = assertion under a regenerating setting, or with a differing/missing '
        'reference; distinct = fingerprint of (step, setting).')
ASSUMPTIONS = [
    'a kind is selected by the setting iff write-all is in force, or the assertion\'s kind label is one of the named kinds (assertDataFrameCorrect defaults to kind csv, assertOnDiskDataFrameCorrect to csv as its documented key)',
    '--write / -w consume the rest of the command line (documented), so they are always placed last',
    'regenerate-then-pass for DataFrames presupposes that parquet itself preserves the dtypes (harness frames use int64/float64/str columns, which do)',
    'the outcome of a normal-mode assertion whose reference is missing is not judged (only that nothing is written)',
]
REQUIRED_MONITORS = ['steps:normal_mode_checked', 'steps:regenerating_checked', 'followup:fresh_process_pass', 'runs:pytest_driven',
                     'followup:same_process_pass', 'runs:forked', 'runs:argv_driven', 'runs:api_driven']
REQUIRED_CLASSES = ['actual_path=source-parquet', 'assert=string', 'assert=textfile', 'assert=textfiles', 'assert=binary', 'assert=df_parquet',
                    'assert=df_csv', 'assert=ondisk', 'mode=normal', 'mode=all', 'mode=kinds', 'ref=match', 'ref=differ',
                    'ref=missing'] + ['spelling=%s' % s for s in ('-W', '--write-all', '--W', '-w', '--w', '--write', 'pytest --write-all', 'pytest --write', 'kinds+write-all')]
KINDS = [None, 'csv', 'table', 'graph', 'other', 'DEFAULT', 'parquet', 'text']
TEXTS = ['one line\n', 'a\nb\nc\n', 'no final newline', '', 'crlf line\r\nsecond\r\n', 'Ünïcode 日本\nline2\n', '\n\nblank lines\n\n',
         'tabs\tand  spaces \n', 'x' * 300 + '\n']
AUX = os.path.join(common.VERIF, 'vt', 'aux', 'c10_module.py')
AUX_PYTEST = os.path.join(common.VERIF, 'vt', 'aux', 'c10_pytest', 'test_hist.py')


def pytest_main():
    import sys
    import pytest
    return int(pytest.main(sys.argv[1:]))


def gen_text(rng):
    """Content of a text result: mostly the fixed shapes above, otherwise generated lines with any line ending,
    blank lines inside and 0-4 line ends at the end."""
    if rng.random() < 0.6:
        return rng.choice(TEXTS)
    from vt.gens import texts as T
    lines = [T.line(rng, k) for k in range(rng.choice([0, 1, 2, 5]))]
    return T.to_text(rng, lines) + rng.choice(['', '', '\n', '\n\n', '\n\n\n', '\r\n\r\n', '\n \n'])


def gen_step(rng, i):
    a = ['string', 'textfile', 'textfiles', 'binary', 'df_parquet', 'df_csv', 'ondisk'][rng.randrange(7)]
    step = {'i': i, 'assert': a, 'kind': rng.choice(KINDS), 'ref_state': rng.choice(['match', 'match', 'differ', 'missing']),
            'ref': 'ref%d.%s' % (i, {'string': 'txt', 'textfile': 'txt', 'textfiles': 'txt', 'binary': 'bin', 'df_parquet': 'parquet',
                                     'df_csv': 'csv', 'ondisk': 'parquet'}[a])}
    if a in ('string', 'textfile') and rng.random() < 0.1:
        step['ref'] = 'ref%d.pdf' % i          # a text reference called *.pdf (tdda reads such files as iso-8859-1)
    if step['ref'].endswith('.parquet') and rng.random() < 0.25:
        step['ref'] = step['ref'][:-len('parquet')] + rng.choice(['PARQUET', 'Parquet'])      # the extension's case does not change the format
    if a in ('string', 'textfile'):
        step['actual'] = gen_text(rng) if rng.random() < 0.5 else rng.choice(TEXTS) + '#%d\n' % rng.randrange(1000)
        if step['ref'].endswith('.pdf'):
            step['actual'] = ''.join(ch if ord(ch) < 256 and ch not in '\x85\xa0' else 'é' for ch in step['actual']) + 'café\n'
        if a == 'textfile' and rng.random() < 0.15:
            # the ACTUAL file is called *.pdf (the reference is not): both are still read by the reference's rule, UTF-8;
            # text kept within Latin-1 so that tdda's own temporaries, named after the actual file, can hold it
            step['actual_name'] = 'report%d.pdf' % i
            step['actual'] = ''.join(ch if ord(ch) < 256 and ch not in '\x85\xa0' else 'é' for ch in step['actual']) + 'café\n'
    elif a == 'textfiles':
        step['actuals'] = [gen_text(rng), rng.choice(TEXTS) + 'tail\n']
    elif a == 'binary':
        step['actual_hex'] = bytes(rng.randrange(256) for _ in range(rng.choice([0, 1, 16, 200]))).hex()
    else:
        n = rng.choice([1, 3, 6])
        step['rows'] = [[k, round(rng.uniform(-5, 5), 3), rng.choice(['a', 'bb', 'Ünï', 'x y'])] for k in range(n)]
        if a != 'df_csv' and rng.random() < 0.4:
            # column types a parquet reference has to keep exactly for the regenerated reference to pass
            step['extra'] = rng.sample(['dt_ns', 'dt_us', 'dt_tz', 'Int64', 'cat', 'float32', 'uint8', 'bool'], rng.randint(1, 3))   # (not datetime64[s]: parquet itself has no such unit)
        if a != 'ondisk' and rng.random() < 0.3:
            # actual_path (documented: used in messages only) names the file the frame was derived from - an existing file
            # whose content is NOT the asserted frame (a column fewer, other values), or a file that is not there
            step['actual_path'] = rng.choice(['source-parquet', 'source-parquet', 'source-csv', 'missing'])
    return step


def gen_setting(rng, i):
    mode = ['normal', 'all', 'kinds'][i % 3]
    kinds = rng.sample(['csv', 'table', 'graph', 'other', 'parquet', 'text'], rng.choice([1, 2, 3, 3])) if mode == 'kinds' else []
    via = ['api', 'argv', 'api', 'argv', 'api', 'pytest'][(i // 3) % 6]
    s = {'mode': mode, 'kinds': kinds, 'via': via, 'argv': [], 'spelling': None}
    if via == 'argv':
        pre = [f for f in ('-v', '-1', '--wquiet') if rng.random() < 0.25]
        if mode == 'all':
            sp = rng.choice(['-W', '--write-all', '--W'])
            argv = pre + [sp]
            rng.shuffle(argv)
            # single-dash tdda flags are only recognised before the first long option (position of a
            # single-dash flag after a long one is an unspecified spelling)
            argv = [a for a in argv if not a.startswith('--')] + [a for a in argv if a.startswith('--')]
            if rng.random() < 0.4:
                # write-all given together with a list of named kinds, before or after it: write-all is in force, so every kind is selected
                wa = rng.choice(['--write-all', '--W'])
                spw = rng.choice(['-w', '--w', '--write'])
                named = spell_kinds(rng, rng.sample(['csv', 'table', 'graph', 'other', 'parquet', 'text'], rng.choice([1, 2])))
                front = [a for a in pre if not a.startswith('--')] + [a for a in pre if a.startswith('--')]
                if spw != '-w' and rng.random() < 0.4:
                    argv = front + [wa, spw] + named
                else:
                    argv = front + [spw] + named + [wa]
                sp = 'kinds+write-all'
        elif mode == 'kinds':
            sp = rng.choice(['-w', '--w', '--write'])
            argv = [a for a in pre if not a.startswith('--')] + [a for a in pre if a.startswith('--')] + [sp] + \
                spell_kinds(rng, kinds)
        else:
            sp = None
            argv = [a for a in pre if not a.startswith('--')] + [a for a in pre if a.startswith('--')]
        s['argv'], s['spelling'] = argv, sp
    if via == 'pytest':
        pre = [f for f in ('-v', '--wquiet', '-s') if rng.random() < 0.25]
        if mode == 'all':
            s['argv'], s['spelling'] = pre + ['--write-all'], 'pytest --write-all'
        elif mode == 'kinds':
            s['argv'] = pre + ['--write'] + spell_kinds(rng, kinds)
            s['spelling'] = 'pytest --write'
        else:
            s['argv'], s['spelling'] = pre, None
    return s


def spell_kinds(rng, kinds):
    """The documented ways of naming several kinds: separate parameters, one comma-separated
    parameter, or a mixture of both."""
    k = rng.random()
    if rng.random() < 0.15:
        # a stray comma (what the shell hands over for `--write table, graph`): an empty name names no kind
        j = ','.join(kinds)
        return rng.choice([[j + ','], [',' + j], [j.replace(',', ',,', 1) if ',' in j else j + ',']])
    if len(kinds) == 1 or k < 0.25:
        return list(kinds)
    if k < 0.5:
        return [','.join(kinds)]
    cut = rng.randint(1, len(kinds) - 1)
    parts = [','.join(kinds[:cut])] + ([','.join(kinds[cut:])] if rng.random() < 0.5 else list(kinds[cut:]))
    rng.shuffle(parts)
    return parts


def gen_case(rng, i):
    n = rng.randint(1, 8)
    steps = [gen_step(rng, k) for k in range(n)]
    setting = gen_setting(rng, i)
    if setting['via'] == 'api':
        for st in steps:
            st['then_switch_off'] = rng.random() < 0.3
    return {'steps': steps, 'setting': setting, 'data_location': rng.random() < 0.3}


def prepare_refs(case, refdir):
    import pandas as pd
    from vt.aux import c10_steps
    for st in case['steps']:
        if case['data_location']:
            st['relative_ref'] = True
        state, a = st['ref_state'], st['assert']
        if state == 'missing':
            continue
        differ = state == 'differ'
        p = os.path.join(refdir, st['ref'])
        if a in ('string', 'textfile'):
            # (a string is compared with what tdda READS from the reference: iso-8859-1 for a file called *.pdf; two files are both
            #  read by the reference's rule, so there the reference holds the actual file's own bytes)
            enc = 'iso-8859-1' if a == 'string' and st['ref'].lower().endswith('.pdf') else 'utf-8'
            c10_steps.write_bytes(p, (st['actual'] + ('changed\n' if differ else '')).encode(enc))
        elif a == 'textfiles':
            for j, txt in enumerate(st['actuals']):
                c10_steps.write_bytes(os.path.join(refdir, '%d_%s' % (j, st['ref'])), (txt + ('changed\n' if differ and j == 1 else '')).encode('utf-8'))
        elif a == 'binary':
            c10_steps.write_bytes(p, bytes.fromhex(st['actual_hex']) + (b'\x00' if differ else b''))
        else:
            rows = [list(r) for r in st['rows']]
            if differ:
                rows[0][1] += 1.5
            df = c10_steps.build_frame(rows, st.get('extra', ()))
            if a == 'df_csv':
                df.to_csv(p, index=False)
            else:
                df.to_parquet(p)


def own_refs(st):
    if st['assert'] == 'textfiles':
        return ['0_' + st['ref'], '1_' + st['ref']]
    return [st['ref']]


def effective_kind(st):
    if st['kind'] == 'DEFAULT':
        return 'csv' if st['assert'] in ('df_parquet', 'df_csv', 'ondisk') else None
    if st['assert'] == 'ondisk' and st['kind'] == 'parquet':
        return 'csv'
    return st['kind']


def selected(st, setting):
    if setting['mode'] == 'all':
        return True
    if setting['mode'] == 'kinds':
        return effective_kind(st) in setting['kinds']
    return False


def run_history(ctx, case, setting, refdir, workdir, tag):
    logpath = os.path.join(ctx.scratch, 'c10_steps_%s.json' % tag)
    if os.path.exists(logpath):
        os.unlink(logpath)
    hist = {'steps': case['steps'], 'data_location': case['data_location']}
    env = {'TDDA_FAIL_DIR': os.path.join(ctx.scratch, 'c10_fail')}
    os.makedirs(env['TDDA_FAIL_DIR'], exist_ok=True)
    if setting['via'] == 'argv':
        hp = os.path.join(ctx.scratch, 'c10_hist.json')
        with open(hp, 'w') as f:
            json.dump(hist, f)
        env.update({'VT_HIST': hp, 'VT_REFDIR': refdir, 'VT_WORKDIR': workdir, 'VT_STEPLOG': logpath})
        res = forkserver.fork_run(AUX, [AUX] + list(setting['argv']), cwd=workdir, env=env, scratch=ctx.scratch)
        ctx.rec.event('runs:argv_driven')
    elif setting['via'] == 'pytest':
        hp = os.path.join(ctx.scratch, 'c10_hist.json')
        with open(hp, 'w') as f:
            json.dump(hist, f)
        env.update({'VT_HIST': hp, 'VT_REFDIR': refdir, 'VT_WORKDIR': workdir, 'VT_STEPLOG': logpath,
                    'PYTEST_DISABLE_PLUGIN_AUTOLOAD': '1'})      # only tdda's plugin (via conftest.py) matters here
        forkserver.warm(extra=('pytest', '_pytest.config', '_pytest.main', '_pytest.python', 'tdda.referencetest.pytestconfig'))
        res = forkserver.fork_run(pytest_main, ['pytest', '-q', '-p', 'no:cacheprovider', AUX_PYTEST] + list(setting['argv']),
                                  cwd=os.path.dirname(AUX_PYTEST), env=env, scratch=ctx.scratch)
        ctx.rec.event('runs:pytest_driven')
    else:
        from vt.aux import c10_steps
        res = forkserver.fork_run(lambda: c10_steps.run_history(hist, refdir, workdir, logpath, setting),
                                  ['c10-history'], cwd=workdir, env=env, scratch=ctx.scratch)
        ctx.rec.event('runs:api_driven')
    ctx.rec.event('runs:forked')
    log = None
    if os.path.exists(logpath):
        try:
            log = json.load(open(logpath))
        except ValueError:
            log = None
    return res, log


def run_case(ctx, case):
    rec = ctx.rec
    refdir = os.path.join(ctx.scratch, 'c10_ref')
    workdir = os.path.join(ctx.scratch, 'c10_work')
    for d in (refdir, workdir):
        shutil.rmtree(d, ignore_errors=True)
        os.makedirs(d)
    prepare_refs(case, refdir)
    setting = case['setting']
    res, log = run_history(ctx, case, setting, refdir, workdir, 'a')
    mode_cls = [('mode=' + setting['mode'],), ('via=' + setting['via'],), ('spelling=%s' % setting['spelling'],)]
    if log is None or (setting['via'] == 'api' and res.status != 0):
        rec.case(case, cls=mode_cls)
        rec.violation('history_did_not_run', {'case': case, 'mech': {'via': setting['via'], 'spelling': setting['spelling'], 'status': res.status},
                                              'facts': {'stderr': res.err[-600:], 'stdout': res.out[-300:], 'argv': setting['argv']}})
        return
    by_i = {e['i']: e for e in log}
    steps = {st['i']: st for st in case['steps']}
    if setting['via'] in ('argv', 'pytest') and set(by_i) != set(steps):
        rec.violation('argv_changed_which_tests_ran', {'case': case, 'mech': {'spelling': setting['spelling'], 'argv0': (setting['argv'] or [None])[0]},
                                                      'facts': {'ran': sorted(by_i), 'steps': sorted(steps), 'argv': setting['argv'], 'stderr': res.err[-500:]}})
        return
    regenerated = []
    for st in case['steps']:
        e = by_i.get(st['i'])
        if e is None:
            continue
        sel = selected(st, setting)
        cls = mode_cls + [('assert=' + st['assert'],), ('ref=' + st['ref_state'],), ('kind=%s' % st['kind'],), ('selected=%d' % sel,)] + \
            ([('actual_path=' + st['actual_path'],)] if st.get('actual_path') else [])
        rec.case({'step': st, 'setting': setting, 'data_location': case['data_location']},
                 nontrivial=sel or st['ref_state'] != 'match', cls=cls)
        touched = sorted(set(e['diff']['created'] + e['diff']['removed'] + e['diff']['modified'] + e['ref_events']))
        touched = [t for t in touched if not t.endswith('/')]
        mech = {'assert': st['assert'], 'mode': setting['mode'], 'via': setting['via'], 'selected': sel}
        facts = {'step': st, 'setting': {k: setting[k] for k in ('mode', 'kinds', 'argv')}, 'touched': touched, 'outcome': e['outcome'], 'detail': e['detail']}
        if not sel:
            rec.event('steps:normal_mode_checked')
            if touched:
                rec.violation('reference_touched_without_request', {'case': case, 'mech': dict(mech, ref_state=st['ref_state'], outcome=e['outcome']), 'facts': facts})
            if st['ref_state'] == 'match' and e['outcome'] != 'pass':
                rec.violation('matching_reference_does_not_pass', {'case': case, 'mech': dict(mech, outcome=e['outcome']), 'facts': facts})
            if st['ref_state'] == 'differ' and e['outcome'] == 'pass':
                rec.violation('differing_reference_passes', {'case': case, 'mech': mech, 'facts': facts})
        else:
            rec.event('steps:regenerating_checked')
            foreign = [t for t in touched if t not in own_refs(st)]
            if foreign:
                rec.violation('regeneration_touched_other_files', {'case': case, 'mech': mech, 'facts': dict(facts, foreign=foreign)})
            if e['outcome'] == 'raise':
                rec.violation('regeneration_raises', {'case': case, 'mech': dict(mech, detail=(e['detail'] or '').split(':')[0]), 'facts': facts})
            elif st['ref_state'] != 'match' and not set(own_refs(st)) & set(touched):
                rec.violation('selected_reference_not_written', {'case': case, 'mech': mech, 'facts': facts})
            else:
                regenerated.append(st['i'])
        e2 = by_i.get(st['i'] + 1000)
        if e2 is not None and sel and e['outcome'] != 'raise':
            rec.event('followup:same_process_pass')
            t2 = [t for t in e2['diff']['created'] + e2['diff']['removed'] + e2['diff']['modified'] + e2['ref_events'] if not t.endswith('/')]
            if e2['outcome'] != 'pass' and st['assert'] != 'df_csv':
                rec.violation('regenerated_reference_fails_same_process', {'case': case, 'mech': dict(mech, outcome=e2['outcome']), 'facts': dict(facts, after=e2)})
            if t2:
                rec.violation('reference_touched_after_switch_off', {'case': case, 'mech': mech, 'facts': dict(facts, touched_after=t2)})
    # ---- the same history again, normal mode, fresh process ------------------------
    if regenerated:
        normal = {'mode': 'normal', 'kinds': [], 'via': 'api', 'argv': [], 'spelling': None}
        c2 = dict(case, steps=[dict(st, then_switch_off=False) for st in case['steps']])
        res2, log2 = run_history(ctx, c2, normal, refdir, workdir, 'b')
        if log2 is None:
            rec.violation('history_did_not_run', {'case': case, 'mech': {'via': 'followup', 'status': res2.status}, 'facts': {'stderr': res2.err[-600:]}})
            return
        by2 = {e['i']: e for e in log2}
        for i in regenerated:
            st = steps[i]
            e = by2.get(i)
            if e is None:
                continue
            rec.event('followup:fresh_process_pass')
            if e['outcome'] != 'pass' and st['assert'] != 'df_csv':
                rec.violation('regenerated_reference_fails', {'case': case, 'mech': {'assert': st['assert'], 'outcome': e['outcome']},
                                                              'facts': {'step': st, 'detail': e['detail']}})
            t = [x for x in e['diff']['created'] + e['diff']['removed'] + e['diff']['modified'] + e['ref_events'] if not x.endswith('/')]
            if t:
                rec.violation('reference_touched_without_request', {'case': case, 'mech': {'assert': st['assert'], 'mode': 'normal', 'via': 'followup', 'selected': False,
                                                                                        'ref_state': 'regenerated', 'outcome': e['outcome']},
                                                                    'facts': {'step': st, 'touched': t}})


def run_shard(ctx):
    for i in range(ctx.params['histories']):
        run_case(ctx, gen_case(ctx.rng, i + ctx.shard))

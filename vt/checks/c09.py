"""C09 — .tdda files round-trip: same text, same verdicts, unknown keys ignored.

Histories: constraint set (discovered from a frame, or hand-written around its data) ->
to_json -> load (path / dict / re-serialised object) -> to_json ... up to 3 cycles, with a
verification of the frame after each form.  M-CONTRACT: a post-condition on the real
DatasetConstraints.to_json checks strict-JSON well-formedness of *every* text serialised
anywhere in the workload.
"""
import contextlib
import copy
import io
import json
import os

from vt import common
from vt.gens import constraints as GC
from vt.gens import frames as F
from vt.monitors import contracts
from vt.oracles import jsonstrict

ID = 'C09'
TIERS = {
    'quick': dict(shards=16, cases=800, watchdog_s=900),
    'thorough': dict(shards=16, cases=20000, watchdog_s=7000),
}
RULE = ('case = frame + constraint set (source: discover_df with/without rex, or hand-written boundary-derived set '
        'with precision dicts, date bounds at date/second/microsecond granularity, unicode names and values, '
        'null-valued constraints) x 1-3 write/load cycles x transports path/dict/object, plus the same set with unknown '
        'kinds and #comment keys. Non-trivial = set with at least 3 constraints; distinct = fingerprint.')
ASSUMPTIONS = [
    "texts are compared modulo creation_metadata.tddafile, which the loader sets to the path it read from",
    'verdict maps are compared with ==; a verification that raises in one form must raise in all',
]
REQUIRED_MONITORS = ['cycle:compared', 'contract:to_json', 'verdicts:forms_compared', 'unknown:compared', 'strict:checked',
                     'verdicts:before_vs_after_cycle']
REQUIRED_CLASSES = ['source=discovered', 'source=discovered+rex', 'source=handwritten', 'source=handwritten-objects', 'cycles=3']
_installed = False
JSON_LOG = []


def install():
    global _installed
    if _installed:
        return
    _installed = True
    import icontract
    from tdda.constraints import base

    def text_is_strict_json(result):
        contracts.EVALS['to_json'] += 1
        p = jsonstrict.problems(result)
        if p:
            return contracts.broken('to_json', problems=p[:3])
        return True
    base.DatasetConstraints.to_json = icontract.ensure(text_is_strict_json, error=contracts.ContractBroken)(
        base.DatasetConstraints.to_json)


def strip_meta(text):
    d = json.loads(text)
    md = d.get('creation_metadata')
    if md:
        md.pop('tddafile', None)
        if not md:
            d.pop('creation_metadata')
    return json.dumps(d, sort_keys=False, ensure_ascii=False, indent=1)


def verdicts_of(df_spec, target):
    from tdda.constraints import verify_df
    err = io.StringIO()
    try:
        with contextlib.redirect_stderr(err), contextlib.redirect_stdout(err):
            v = verify_df(F.build_frame(df_spec), target, repair=False)
        return {'%s|%s' % (n, k): bool(ok) for n, fv in v.fields.items() for k, ok in fv.items()}, err.getvalue()
    except Exception as e:
        m = common.short_tb(e)
        return {'__raises__': '%s@%s' % (m['exc'], m['where'])}, err.getvalue()


def objects_from(cset):
    """The constraint set as in-memory objects built with the constructors (date bounds as real
    datetime objects), i.e. NOT through the loader - the 'before' side of a write/load cycle."""
    from tdda.constraints import base as B
    from vt.oracles import constraint_semantics as CS
    fcs = []
    for name, fc in cset['fields'].items():
        is_date = fc.get('type') == 'date'
        cons = []
        for kind, value in fc.items():
            ctor = B.FIELD_CONSTRAINTS_MAP.get(kind)
            if not ctor:
                continue
            kw = {}
            if isinstance(value, dict):
                kw = {k: v for k, v in value.items() if k != 'value'}
                value = value.get('value')
            if is_date and kind in ('min', 'max') and isinstance(value, str):
                dt, ns = CS.parse_dt(value)
                import re
                if re.search(r'[+-]\d\d:\d\d(:\d\d)?$', value) and len(value) > 10:
                    import datetime
                    dt = dt.replace(tzinfo=datetime.timezone.utc)
                value = dt
            cons.append(ctor(value, **kw))
        if cons:
            fcs.append(B.FieldConstraints(name, cons))
    return B.DatasetConstraints(fcs)


def verdicts_of_objects(df_spec, cons):
    from tdda.constraints.pd.constraints import PandasConstraintVerifier, PandasVerification
    err = io.StringIO()
    try:
        with contextlib.redirect_stderr(err), contextlib.redirect_stdout(err):
            pdv = PandasConstraintVerifier(F.build_frame(df_spec), epsilon=None, type_checking=None)
            v = pdv.verify(cons, VerificationClass=PandasVerification)
        return {'%s|%s' % (n, k): bool(ok) for n, fv in v.fields.items() for k, ok in fv.items()}
    except Exception as e:
        m = common.short_tb(e)
        return {'__raises__': '%s@%s' % (m['exc'], m['where'])}


def gen_case(rng, i):
    spec = F.gen_frame(rng, pool=F.RECOGNISED)
    src = ['discovered', 'discovered+rex', 'handwritten', 'handwritten-objects'][i % 4]
    case = {'spec': spec, 'source': src, 'cycles': 1 + (i // 4) % 3}
    if src.startswith('handwritten'):
        cset = GC.constraint_set(rng, spec, missing_field=rng.random() < 0.2)
        if rng.random() < 0.5:
            cset, _ = GC.with_nulls(rng, cset, spec)
        case['cset'] = cset
    case['unknown'] = {'kind': rng.choice(['frobnicate', 'min_len', 'regex', 'transform2', 'MAX',
                                            # look-alikes of real kinds: other separators, other case, plural/singular
                                            'max-nulls', 'min-length', 'max-length', 'no-duplicates', 'allowed-values', 'Min', 'TYPE',
                                            'max nulls', 'allowed_value', 'signs', 'maxlength']),
                       'value': rng.choice([1, 'x', [1, 2], {'a': 1}, None]),
                       'comment': rng.choice(['#', '#comment', '#min'])}
    return case


def classify_text(text):
    """facts about a serialised text that findings classifiers use"""
    import re
    return {'bare_infinity': bool(re.search(r'(?<![\w"])-?Infinity\b|\bNaN\b', text)),
            'date_only_bound': bool(re.search(r'"(min|max)": "\d{4}-\d\d-\d\d"', text))}


def run_case(ctx, case):
    rec = ctx.rec
    install()
    from tdda.constraints import discover_df
    from tdda.constraints.base import DatasetConstraints, native_definite
    spec = case['spec']
    cls = [('source=' + case['source'],), ('cycles=%d' % case['cycles'],)] + [('colkind=' + c['kind'],) for c in spec['cols']]
    err = io.StringIO()
    stage = 'make'
    try:
        with contextlib.redirect_stderr(err), contextlib.redirect_stdout(err):
            if case['source'].startswith('discovered'):
                cons = discover_df(F.build_frame(spec), inc_rex=case['source'].endswith('rex'))
                if cons is None:
                    rec.case(case, nontrivial=False, cls=cls)
                    return
            elif case['source'] == 'handwritten-objects':
                cons = objects_from(case['cset'])
            else:
                cons = DatasetConstraints()
                cons.initialize_from_dict(native_definite(copy.deepcopy(case['cset'])))
            stage = 'to_json'
            text0 = cons.to_json()
    except Exception as e:
        m = common.short_tb(e)
        contracts.drain()
        rec.case(case, cls=cls)
        rec.violation('raises', {'case': case, 'mech': {'stage': stage, 'exc': m['exc'], 'where': m['where']},
                                 'facts': dict(m, source=case['source'])})
        return
    try:
        nkinds = sum(len(v) for v in json.loads(text0).get('fields', {}).values())
    except ValueError as e:
        rec.case(case, cls=cls)
        contracts.drain()
        rec.violation('text_is_not_json', {'case': case, 'mech': {'source': case['source']}, 'facts': {'error': str(e)[:200], 'text': text0[-400:]}})
        return
    rec.case(case, nontrivial=nkinds >= 3, cls=cls)
    facts0 = classify_text(text0)
    # ---- strictness (contract + harness) ------------------------------------
    rec.event('strict:checked')
    for b in contracts.drain():
        rec.violation('not_strict_json', {'case': case, 'mech': dict(facts0, problem=b['facts']['problems'][0][0]),
                                          'facts': b['facts']})
    # ---- cycles ---------------------------------------------------------------
    texts = [text0]
    path = os.path.join(ctx.scratch, 'c09.tdda')
    cur = text0
    try:
        for c in range(case['cycles']):
            stage = 'load-cycle-%d' % (c + 1)
            with open(path, 'w', encoding='utf-8') as f:
                f.write(cur)
            with contextlib.redirect_stderr(err), contextlib.redirect_stdout(err):
                loaded = DatasetConstraints(loadpath=path)
                stage = 'to_json-cycle-%d' % (c + 1)
                cur = loaded.to_json()
            texts.append(cur)
    except Exception as e:
        m = common.short_tb(e)
        contracts.drain()
        rec.violation('raises', {'case': case, 'mech': {'stage': stage.split('-cycle')[0], 'exc': m['exc'], 'where': m['where'],
                                                         'precision_dict_on_date': '"precision"' in text0 and '"date"' in text0},
                                 'facts': dict(m, stage=stage, text=text0[-700:])})
        return
    contracts.drain()
    rec.event('cycle:compared', len(texts) - 1)
    base = strip_meta(text0)
    for c, t in enumerate(texts[1:], 1):
        if strip_meta(t) != base:
            a, b = base.split('\n'), strip_meta(t).split('\n')
            diff = [(x, y) for x, y in zip(a, b) if x != y][:3]
            rec.violation('text_changes_on_roundtrip', {
                'case': case, 'mech': dict(facts0, cycle=min(c, 2), only_midnight_suffix=all(y.replace(' 00:00:00', '') == x for x, y in diff) and bool(diff)),
                'facts': {'cycle': c, 'diff': diff}})
            break
    # ---- same verdicts from path / dict / re-serialised object ------------------
    with open(path, 'w', encoding='utf-8') as f:
        f.write(text0)
    d0 = json.loads(text0)
    forms = {'path': path, 'dict': d0, 'reserialised': json.loads(texts[-1])}
    res = {k: verdicts_of(spec, t)[0] for k, t in forms.items()}
    rec.event('verdicts:forms_compared')
    if case['source'] in ('handwritten-objects', 'discovered', 'discovered+rex'):
        # verdicts of the constraint objects as they were BEFORE being written
        before = verdicts_of_objects(spec, cons)
        rec.event('verdicts:before_vs_after_cycle')
        if before != res['path'] and '__raises__' not in before:
            keys = [k for k in set(before) | set(res['path']) if before.get(k) != res['path'].get(k)]
            rec.violation('verdicts_change_after_write_load', {
                'case': case, 'mech': {'kinds': sorted(set(k.split('|')[-1] for k in keys))[:4], 'source': case['source'].split('+')[0],
                                       'precision_dict': any(isinstance(v, dict) for fc in json.loads(text0).get('fields', {}).values() for v in fc.values())},
                'facts': {'keys': keys[:5], 'before': {k: before.get(k) for k in keys[:5]}, 'after': {k: res['path'].get(k) for k in keys[:5]}}})
    if not (res['path'] == res['dict'] == res['reserialised']):
        keys = [k for k in res['path'] if res['path'].get(k) != res['dict'].get(k) or res['path'].get(k) != res['reserialised'].get(k)]
        rec.violation('verdicts_differ_between_forms', {'case': case, 'mech': {'kinds': sorted(set(k.split('|')[-1] for k in keys))[:4]},
                                                        'facts': {'keys': keys[:5], 'path': {k: res['path'].get(k) for k in keys[:5]},
                                                                  'dict': {k: res['dict'].get(k) for k in keys[:5]},
                                                                  'reserialised': {k: res['reserialised'].get(k) for k in keys[:5]}}})
    # ---- unknown kinds and #comments ---------------------------------------------
    u = case['unknown']
    d1 = copy.deepcopy(d0)
    for name, fc in d1.get('fields', {}).items():
        fc[u['kind']] = u['value']
        fc[u['comment']] = 'a note'
    r1, warn = verdicts_of(spec, d1)
    rec.event('unknown:compared')
    if r1 != res['dict']:
        rec.violation('unknown_key_changes_result', {'case': case, 'mech': {'raises': '__raises__' in r1},
                                                     'facts': {'unknown': u, 'with': {k: v for k, v in r1.items() if res['dict'].get(k) != v},
                                                               'without': {k: v for k, v in res['dict'].items() if r1.get(k) != v}}})


def run_shard(ctx):
    for i in range(ctx.params['cases']):
        run_case(ctx, gen_case(ctx.rng, i))
    for k, v in contracts.EVALS.items():
        ctx.rec.event('contract:' + k, v)
    contracts.EVALS.clear()

"""C02 — verification verdicts equal the documented meaning of each constraint.

Every case verifies one generated frame against a constraint set whose values sit on, just
inside and just outside the boundaries of that frame's data, under a chosen epsilon /
type_checking / report mode; the verdict recorder logs each (field, kind, verdict) and the
independent reference semantics (oracles/constraint_semantics.py, exact rational arithmetic)
decides it.  The same frame is verified again with extra null-valued constraints and with the
constraints in another order; totals, per-field counts, to_frame() and str() are re-derived
from the verdicts.
"""
import contextlib
import io
import json
import math
import os
import re

from vt import common
from vt.gens import constraints as GC
from vt.gens import frames as F
from vt.oracles import constraint_semantics as CS

ID = 'C02'
TIERS = {
    'quick': dict(shards=16, cases=1200, long_null_runs=3, watchdog_s=900),
    'thorough': dict(shards=16, cases=40000, long_null_runs=60, watchdog_s=7000),
}
RULE = ('case = frame spec (C01 generator) + constraint set derived from its data (bounds on / just inside / just '
        'outside each extreme incl. the fuzzy thresholds for epsilon 0.01 and 0.5, every precision, all sign classes, '
        'type scalars and lists, lengths, null counts, allowed values, expressions, a missing field) x epsilon '
        '{unset,0,0.01,0.5} x type_checking {unset,strict,sloppy} x report {all,fields,records} x transport '
        '{dict,file}; 3 verifications per case. Non-trivial = at least 3 verdicts with a definite oracle value.')
ASSUMPTIONS = [
    'date-valued bounds are well formed only next to "type": "date" (the file format has no other date marker)',
    'unspecified (never alarmed on): default epsilon where 0 and 1% disagree; values within 1e-9 relative of a fuzzy threshold; open precision on dates; sub-microsecond differences; bool-typed bounds; sign/length/allowed_values/rex on fields of another family; null-valued constraint on a missing field; sloppy bool against a real column',
    'repair is switched off whenever a type constraint would make verify_df rewrite the column before checking it',
]
REQUIRED_MONITORS = ['verdict:must-true', 'verdict:must-false', 'totals:checked', 'frame:checked', 'str:checked',
                     'nulls:pairs', 'order:pairs', 'frames:long_null_run']
REQUIRED_CLASSES = ['eps=unset', 'eps=0', 'eps=0.01', 'eps=0.5', 'tc=strict', 'tc=sloppy', 'report=all',
                    'report=fields', 'kind=min', 'kind=max', 'kind=sign', 'kind=type', 'kind=min_length',
                    'kind=max_length', 'kind=max_nulls', 'kind=no_duplicates', 'kind=allowed_values', 'kind=rex',
                    'missing_field=1']


def gen_case(rng, i, spec=None):
    spec = spec or F.gen_frame(rng, pool=F.RECOGNISED)
    cset = GC.constraint_set(rng, spec, missing_field=rng.random() < 0.15)
    eps = [None, 0, 0.01, 0.5][i % 4] if i < 8 else rng.choice([None, 0, 0.01, 0.5])
    tc = rng.choice([None, 'strict', 'sloppy'])
    c2, added = GC.with_nulls(rng, cset, spec)
    return {'spec': spec, 'cset': cset, 'cset_nulls': c2, 'added': added, 'epsilon': eps, 'type_checking': tc,
            'report': rng.choice(['all', 'all', 'fields', 'records']), 'transport': rng.choice(['dict', 'dict', 'file']),
            'ascii': rng.random() < 0.3, 'perm': rng.randrange(10 ** 6)}


def repair_inert(spec, cset):
    for col in spec['cols']:
        t = cset['fields'].get(col['name'], {}).get('type')
        fam = F.FAMILY[col['kind']]
        if t == 'string' and col['kind'] not in ('str_obj', 'cat'):
            return False
        if t == 'bool' and fam == 'int':
            return False
    return True


def verdict_map(v):
    return {(name, kind): ok for name, fv in v.fields.items() for kind, ok in fv.items()}


def do_verify(ctx, case, cset, tag):
    from tdda.constraints import verify_df
    df = F.build_frame(case['spec'])
    kw = {}
    if case['epsilon'] is not None:
        kw['epsilon'] = case['epsilon']
    if case['type_checking']:
        kw['type_checking'] = case['type_checking']
    target = cset
    if case['transport'] == 'file':
        target = os.path.join(ctx.scratch, 'c02_%s.tdda' % tag)
        with open(target, 'w', encoding='utf-8') as f:
            json.dump(cset, f, ensure_ascii=False)
    err = io.StringIO()
    with contextlib.redirect_stderr(err), contextlib.redirect_stdout(err):
        return verify_df(df, target, repair=case['repair'], report=case['report'], ascii=case['ascii'], **kw)


def permuted(cset, seed):
    import random
    r = random.Random(seed)
    names = list(cset['fields'])
    r.shuffle(names)
    out = {'fields': {}}
    for n in names:
        kinds = list(cset['fields'][n])
        r.shuffle(kinds)
        out['fields'][n] = {k: cset['fields'][n][k] for k in kinds}
    return out


def parse_str(text, ascii_):
    """{field: (failures, passes, {kind: True/False/None})} from str(verification)."""
    tick, cross, nothing = ('OK', 'X', '-') if ascii_ else ('✓', '✗', '-')
    out = {}
    body = text.split('SUMMARY:')[0]
    if 'FIELDS:' not in body:
        return out, text.split('SUMMARY:')[1]
    for block in body.split('FIELDS:\n\n', 1)[1].split('\n\n'):
        if not block.strip():
            continue
        m = re.match(r'^(.*): (\d+) failures?  (\d+) pass(?:es)?  (.*)$', block, re.S)
        if not m:
            out[block] = None
            continue
        marks = {}
        toks = m.group(4).split('  ')
        for t in toks:
            if ' ' in t:
                k, mk = t.rsplit(' ', 1)
                marks[k] = True if mk == tick else False if mk == cross else None
        out[m.group(1)] = (int(m.group(2)), int(m.group(3)), marks)
    return out, text.split('SUMMARY:')[1]


def run_case(ctx, case):
    rec = ctx.rec
    spec, cset = case['spec'], case['cset']
    case['repair'] = repair_inert(spec, cset) and repair_inert(spec, case['cset_nulls']) and (case['perm'] % 2 == 0)
    cols = {c['name']: c for c in spec['cols']}
    opts = {'epsilon': case['epsilon'], 'type_checking': case['type_checking']}
    kinds_present = sorted(set(k for fc in cset['fields'].values() for k in fc))
    cls = [('eps=%s' % ('unset' if case['epsilon'] is None else case['epsilon']),),
           ('tc=%s' % (case['type_checking'] or 'unset'),), ('report=' + case['report'],),
           ('transport=' + case['transport'],),
           ('missing_field=%d' % any(n not in cols for n in cset['fields']),)] + \
          [('kind=' + k,) for k in kinds_present] + [('colkind=' + c['kind'],) for c in spec['cols']]
    if not cset['fields']:
        rec.case(case, nontrivial=False, cls=cls)
        return
    stage = 'verify'
    try:
        v = do_verify(ctx, case, cset, 'a')
        vm = verdict_map(v)
        stage = 'verify+nulls'
        v2 = do_verify(ctx, case, case['cset_nulls'], 'b')
        vm2 = verdict_map(v2)
        stage = 'verify-permuted'
        v3 = do_verify(ctx, case, permuted(cset, case['perm']), 'c')
        vm3 = verdict_map(v3)
    except Exception as e:
        m = common.short_tb(e)
        rec.case(case, cls=cls)
        src = case['cset_nulls'] if stage == 'verify+nulls' else cset
        unspec = [(n, k) for n, fc in src['fields'].items() for k, val in fc.items()
                  if (CS.expected(cols[n], k, val, opts) if n in cols else CS.expected(None, k, val, opts, present=False)) is None]
        if unspec:
            rec.unspecified('exception while a constraint without documented meaning was present (%s)' % m['exc'])
            return
        rec.violation('raises', {'case': case, 'mech': {'stage': stage, 'exc': m['exc'], 'where': m['where']},
                                 'facts': dict(m, kinds=kinds_present)})
        return
    definite = 0
    for name, fc in cset['fields'].items():
        for kind, value in fc.items():
            got = vm.get((name, kind), 'absent')
            if name in cols:
                want = CS.expected(cols[name], kind, value, opts)
            else:
                want = CS.expected(None, kind, value, opts, present=False)
            if got == 'absent':
                rec.violation('verdict_missing', {'case': case, 'mech': {'kind': kind}, 'facts': {'field': name}})
                continue
            if want is None:
                rec.unspecified('no documented verdict: %s' % kind)
                continue
            definite += 1
            rec.event('verdict:must-%s' % ('true' if want else 'false'))
            if bool(got) != want:
                col = cols.get(name)
                rec.violation('wrong_verdict', {
                    'case': case,
                    'mech': {'kind': kind, 'want': want, 'family': F.FAMILY[col['kind']] if col else 'missing-field',
                             'tz': bool(col and col['kind'] in F.TZ_KINDS),
                             'all_null': bool(col) and all(x is None for x in col['values']),
                             'precision': value.get('precision') if isinstance(value, dict) else None},
                    'facts': {'field': name, 'value': value, 'tdda': bool(got), 'colkind': col['kind'] if col else None,
                              'epsilon': case['epsilon'], 'type_checking': case['type_checking'],
                              'values': (col['values'][:8] if col else None)}})
    rec.case(case, nontrivial=definite >= 3, cls=cls)
    # ---- totals, per-field counts ---------------------------------------
    rec.event('totals:checked')
    n_true = sum(1 for ok in vm.values() if ok)
    n_false = sum(1 for ok in vm.values() if ok is not None and not ok)
    if (v.passes, v.failures) != (n_true, n_false):
        rec.violation('totals', {'case': case, 'mech': {}, 'facts': {'reported': [v.passes, v.failures], 'counted': [n_true, n_false]}})
    for name, fv in v.fields.items():
        t = sum(1 for ok in fv.values() if ok)
        f = sum(1 for ok in fv.values() if ok is not None and not ok)
        if (fv.passes, fv.failures) != (t, f):
            rec.violation('field_totals', {'case': case, 'mech': {}, 'facts': {'field': name, 'reported': [fv.passes, fv.failures], 'counted': [t, f]}})
    # ---- to_frame() -------------------------------------------------------
    rec.event('frame:checked')
    try:
        fr = v.to_frame()
        recs = fr.to_dict('records')
        if [r['field'] for r in recs] != list(v.fields.keys()):
            rec.violation('frame_fields', {'case': case, 'mech': {}, 'facts': {'frame': [r['field'] for r in recs]}})
        for r in recs:
            fv = v.fields[r['field']]
            if (r['passes'], r['failures']) != (fv.passes, fv.failures):
                rec.violation('frame_counts', {'case': case, 'mech': {}, 'facts': {'row': common.jsafe(r)}})
            for k in fr.columns:
                if k in ('field', 'failures', 'passes'):
                    continue
                cell = r[k]
                isnan = cell is None or (isinstance(cell, float) and math.isnan(cell)) or str(cell) in ('nan', '<NA>', 'None')
                if k in fv:
                    if isnan or bool(cell) != bool(fv[k]):
                        rec.violation('frame_cell', {'case': case, 'mech': {'kind': k}, 'facts': {'field': r['field'], 'cell': repr(cell), 'verdict': fv[k]}})
                elif not isnan:
                    rec.violation('frame_cell_extra', {'case': case, 'mech': {'kind': k}, 'facts': {'field': r['field'], 'cell': repr(cell)}})
    except Exception as e:
        m = common.short_tb(e)
        rec.violation('raises', {'case': case, 'mech': {'stage': 'to_frame', 'exc': m['exc'], 'where': m['where']}, 'facts': m})
    # ---- str() --------------------------------------------------------------
    names = list(v.fields.keys())
    plain = all(re.match(r'^[A-Za-z0-9_.]+$', n) for n in names)
    if plain:
        rec.event('str:checked')
        parsed, summary = parse_str(str(v), case['ascii'])
        shown = names if case['report'] == 'all' else [n for n in names if v.fields[n].failures > 0]
        if list(parsed.keys()) != shown:
            rec.violation('str_fields', {'case': case, 'mech': {'report': case['report']}, 'facts': {'shown': list(parsed.keys()), 'want': shown}})
        else:
            for n in shown:
                fv = v.fields[n]
                if parsed[n] is None or parsed[n][0] != fv.failures or parsed[n][1] != fv.passes or \
                        parsed[n][2] != {k: (None if ok is None else bool(ok)) for k, ok in fv.items()}:
                    rec.violation('str_field_line', {'case': case, 'mech': {}, 'facts': {'field': n, 'parsed': common.jsafe(parsed[n])}})
        m = re.search(r'Constraints passing: (\d+)\nConstraints failing: (\d+)', summary)
        if not m or (int(m.group(1)), int(m.group(2))) != (v.passes, v.failures):
            rec.violation('str_summary', {'case': case, 'mech': {}, 'facts': {'summary': summary[-200:]}})
    # ---- null-valued constraints change nothing ------------------------------
    rec.event('nulls:pairs')
    for key, ok in vm.items():
        if key in vm2 and bool(vm2[key]) != bool(ok):
            rec.violation('null_constraint_changes_verdict', {'case': case, 'mech': {'kind': key[1]},
                                                               'facts': {'key': list(key), 'before': ok, 'after': vm2[key]}})
    for name, kind in case['added']:
        got = vm2.get((name, kind), 'absent')
        if name in cols and got is not True and got != 'absent' and not got:
            rec.violation('null_constraint_not_satisfied', {'case': case, 'mech': {'kind': kind}, 'facts': {'field': name, 'got': repr(got)}})
        elif got == 'absent':
            rec.note('null-valued constraint dropped from the result')
    # ---- order independence ---------------------------------------------------
    rec.event('order:pairs')
    if {k: bool(x) for k, x in vm.items()} != {k: bool(x) for k, x in vm3.items()}:
        rec.violation('order_changes_verdict', {'case': case, 'mech': {}, 'facts': {}})


def run_shard(ctx):
    from vt.checks import c01
    for k in range(ctx.params.get('long_null_runs', 2)):
        # columns whose few values sit behind / before / around a run of 1000+ nulls (C01's generator): a verdict must not depend
        # on where in the column the values are
        run_case(ctx, gen_case(ctx.rng, 8 + k, spec=c01.long_null_run_case(ctx.rng)['spec']))
        ctx.rec.event('frames:long_null_run')
    for i in range(ctx.params['cases']):
        run_case(ctx, gen_case(ctx.rng, i))

"""C17 — the tdda command line gives the same constraints and verdicts as the library.

Real `tdda discover|verify|detect` processes (M-FORK: console.main in a forked child, true
exit status, captured stdout/stderr, stdin where used) are compared with the library called
on load_df(file) in the harness process; M-FS snapshots of the working directory show what a
run leaves behind.  A sample of invocations is repeated as genuine
`python -m tdda.constraints.console ...` subprocesses and must agree.
"""
import contextlib
import io
import json
import os
import re
import shutil

from vt import common
from vt.gens import frames as F
from vt.monitors import forkserver, fsmon

ID = 'C17'
TIERS = {
    'quick': dict(shards=16, files=40, real_every=60, watchdog_s=900),
    'thorough': dict(shards=16, files=1200, real_every=600, watchdog_s=5000),
}
RULE = ('case = tabular file (CSV or parquet; int/float/bool/datetime/string/unicode columns, nulls) x one invocation: '
        'discover (-r/-R, output to file, to "-" or omitted, input from "-"), verify (-a/-f, -7, --epsilon, -t, against '
        'discovered or perturbed constraints), detect (--write-all, --[no-]per-constraint, --output-fields, '
        '--no-output-fields, --interleave, --index, --int; csv/parquet/"-" output) or a bad invocation (missing input, '
        'missing constraints file, unknown flag, contradictory options). ~9 invocations per file. Non-trivial = every '
        'invocation; distinct = fingerprint of (file spec, argv).')
ASSUMPTIONS = [
    'creation metadata is set aside when comparing constraints',
    'the library side is called with the documented equivalents of the flags (detect: rownumber_is_index=False, report="records", per_constraint on unless --no-per-constraint, output_fields [] unless given / --no-output-fields)',
    'report text is compared verbatim with str() of the library result under the same report/ascii settings',
]
REQUIRED_MONITORS = ['cli:discover', 'cli:verify', 'cli:detect', 'cli:bad_invocation', 'closure:cli', 'runs:real_crosscheck',
                     'fs:leftovers_checked', 'cli:stdin_input', 'cli:stdout_output', 'session:command_compared', 'detect:row_numbers_checked', 'cli:verify_implicit_constraints']
REQUIRED_CLASSES = ['fmt=csv', 'fmt=parquet', 'bad=missing-input', 'bad=missing-constraints', 'bad=unknown-flag',
                    'bad=contradictory']
KINDS = ['int64', 'float64', 'bool', 'dt_s', 'dt_ns', 'str_obj', 'Int64']


def console_main():
    from tdda.constraints import console
    return console.main()


def run_cli(ctx, args, cwd, stdin=None, real=False):
    if real:
        return forkserver.real_run(['-m', 'tdda.constraints.console'] + args, cwd=cwd, stdin_bytes=stdin)
    return forkserver.fork_run(console_main, ['tdda'] + args, cwd=cwd, stdin_bytes=stdin, scratch=ctx.scratch)


def gen_file(rng, i):
    n = rng.choice([1, 3, 8, 25])
    cols = []
    for j in range(rng.randint(1, 4)):
        k = KINDS[(i + j) % len(KINDS)] if j == 0 else rng.choice(KINDS)
        c = F.gen_column(rng, k, n, name=['a', 'b', 'näme', 'd e', 'x'][j % 5] + str(j), nulls=rng.choice(['none', 'none', 'one', 'many']))
        if k == 'str_obj':
            c['values'] = [None if v is None else (v.replace('\r', ' ').replace('\n', ' ').replace('\x01', 'x').replace('\x00', 'x') or 'e')
                           for v in c['values']]
        if k == 'str_obj' and rng.random() < 0.15:
            # text holding characters that end a "line" for str.splitlines() but not a CSV record, quotes and delimiters
            odd = ['a\x0cb', 'x\u2028y', 'p\x85q', 'v\x0bw', 'm\x1cn', 'r\x1ds', 't\x1eu', 'k\u2029l', 'say "q"', 'comma, inside', "it's", 'ends in \\', '\\']
            c['values'] = [None if v is None else rng.choice(odd) for v in c['values']]
        if k == 'float64':
            c['values'] = [v if v not in ('inf', '-inf') else 1e300 for v in c['values']]
        cols.append(c)
    if rng.random() < 0.12:
        # a LAST column whose text can end in a backslash (tdda's CSV reader treats that as an escape at first, then retries)
        cols.append({'name': 'tail', 'kind': 'str_obj', 'nulls': 'none', 'values': [rng.choice(['x\\', 'plain', 'a b\\', 'q', '\\']) for _ in range(n)]})
    return {'cols': cols, 'nrows': n, 'fmt': ['csv', 'parquet'][i % 2], 'choices': rng.randrange(10 ** 9),
            'parquet_index': rng.choice([None, None, 'named', 'offset'])}


def write_file(spec, path):
    df = F.build_frame(spec)
    if spec['fmt'] == 'parquet' and spec.get('parquet_index'):
        # a parquet file stores the frame's index: a named one, or labels that are not 0..n-1
        if spec['parquet_index'] == 'named':
            df.index = pd_index_named(len(df))
        else:
            df.index = list(range(100, 100 + len(df)))
    if spec['fmt'] == 'parquet':
        df.to_parquet(path)
    else:
        df.to_csv(path, index=False)


def pd_index_named(n):
    import pandas as pd
    return pd.Index(['r%02d' % k for k in range(n)], name='rowid')


def strip_meta(text):
    d = json.loads(text)
    d.pop('creation_metadata', None)
    return json.dumps(d, sort_keys=True, ensure_ascii=True)


def lib_load(path):
    """The frame the library side works on: a parquet file as pandas itself reads it (index and all), a CSV file through
    tdda's own reader (there is no other reading of a CSV file that the property could refer to)."""
    if path.endswith('.parquet'):
        import pandas as pd
        return pd.read_parquet(path)
    from tdda.constraints.pd.constraints import load_df
    return load_df(path)


def lib(fn):
    err = io.StringIO()
    with contextlib.redirect_stderr(err), contextlib.redirect_stdout(err):
        return fn()


@contextlib.contextmanager
def in_dir(d):
    old = os.getcwd()
    os.chdir(d)
    try:
        yield
    finally:
        os.chdir(old)


def run_file(ctx, spec, idx):
    rec = ctx.rec
    import random as _random
    rng = _random.Random(spec.get('choices', 0))      # every choice below is a function of the case, so a witness replays exactly
    from tdda.constraints.pd.constraints import load_df, discover_df, verify_df, detect_df
    d = os.path.join(ctx.scratch, 'c17')
    shutil.rmtree(d, ignore_errors=True)
    os.makedirs(d)
    data = rng.choice(['data', 'data', 'accounts.2024', 'my data.v2', 'dätä', 'a.b.c']) + '.' + spec['fmt']
    dpath = os.path.join(d, data)
    try:
        write_file(spec, dpath)
    except Exception:
        return
    fmtcls = ('fmt=' + spec['fmt'],)
    n_inv = [0]

    def case_of(argv, what, extra=None):
        n_inv[0] += 1
        c = {'spec': spec, 'argv': argv, 'what': what}
        rec.case(c, nontrivial=True, cls=[fmtcls, ('what=' + what,)] + (extra or []))
        return c

    def crosscheck(args, res, stdin=None, files=()):
        ctx.c17_invocations = getattr(ctx, 'c17_invocations', 0) + 1
        if ctx.c17_invocations % ctx.params['real_every'] == 7 % ctx.params['real_every']:
            snap = {f: open(os.path.join(d, f), 'rb').read() if os.path.exists(os.path.join(d, f)) else None for f in files}
            for f in files:
                if os.path.exists(os.path.join(d, f)):
                    os.unlink(os.path.join(d, f))
            real = run_cli(ctx, args, d, stdin=stdin, real=True)
            rec.event('runs:real_crosscheck')
            now = {f: open(os.path.join(d, f), 'rb').read() if os.path.exists(os.path.join(d, f)) else None for f in files}

            def norm(t):
                return re.sub(r'"(local_time|utc_time|as_at)": "[^"]*"', '', t)
            if (real.status, norm(real.out)) != (res.status, norm(res.out)) or \
                    {k: norm((v or b'').decode('utf-8', 'replace')) for k, v in now.items()} != {k: norm((v or b'').decode('utf-8', 'replace')) for k, v in snap.items()}:
                rec.violation('forkserver_disagrees_with_real_process', {'case': {'spec': spec, 'argv': args}, 'mech': {'harness': True},
                                                                          'facts': {'fork': [res.status, res.out[-300:], res.err[-300:]],
                                                                                    'real': [real.status, real.out[-300:], real.err[-300:]]}})

    # ---------------- discover ------------------------------------------------------
    rex = rng.random() < 0.4
    out_mode = rng.choice(['file', 'file', 'stdout-dash', 'stdout-omitted'])
    in_stdin = spec['fmt'] == 'csv' and rng.random() < 0.25
    args = ['discover'] + (['-r'] if rex else (['-R'] if rng.random() < 0.3 else []))
    stdin = open(dpath, 'rb').read() if in_stdin else None
    args.append('-' if in_stdin else data)
    cons_name = 'cons.tdda'
    if out_mode == 'file':
        args.append(cons_name)
    elif out_mode == 'stdout-dash':
        args.append('-')
    case = case_of(args, 'discover')
    before = fsmon.snapshot(d)
    res = run_cli(ctx, args, d, stdin=stdin)
    rec.event('cli:discover')
    if in_stdin:
        rec.event('cli:stdin_input')
    try:
        if in_stdin:
            want = lib(lambda: discover_df(lib_load(dpath), inc_rex=rex))     # the same bytes, loaded from the file
        else:
            want = lib(lambda: discover_df(lib_load(dpath), inc_rex=rex, df_path=dpath))
        want_text = want.to_json() if want is not None else None
    except Exception as e:
        want_text = 'LIBRARY-RAISES:' + type(e).__name__
    got_text = None
    if out_mode == 'file':
        p = os.path.join(d, cons_name)
        got_text = open(p).read() if os.path.exists(p) else None
    else:
        rec.event('cli:stdout_output')
        got_text = res.out if res.out.strip() else None
    mech = {'cmd': 'discover', 'out': out_mode, 'stdin': in_stdin}
    if want_text and want_text.startswith('LIBRARY-RAISES'):
        if res.status == 0:
            rec.violation('cli_succeeds_where_library_raises', {'case': case, 'mech': mech, 'facts': {'library': want_text}})
    elif want_text is None:
        pass
    elif res.status != 0 or got_text is None:
        rec.violation('cli_failed', {'case': case, 'mech': dict(mech, status=res.status), 'facts': {'stderr': res.err[-500:], 'stdout': res.out[-200:]}})
    else:
        try:
            same = strip_meta(got_text) == strip_meta(want_text)
        except ValueError:
            same = False
        if not same:
            rec.violation('constraints_differ', {'case': case, 'mech': mech, 'facts': {'cli': got_text[-500:], 'library': want_text[-500:]}})
    crosscheck(args, res, stdin=stdin, files=[cons_name] if out_mode == 'file' else [])
    # make sure a constraints file exists for the next commands
    cpath = os.path.join(d, cons_name)
    if not os.path.exists(cpath):
        if want_text and not want_text.startswith('LIBRARY-RAISES'):
            with open(cpath, 'w') as f:
                f.write(want_text)
        else:
            return
    # ---------------- closure through the CLI: verify against own constraints -------
    args = ['verify', data, cons_name]
    case = case_of(args, 'closure')
    res = run_cli(ctx, args, d)
    rec.event('closure:cli')
    m = re.search(r'Constraints passing: (\d+)\nConstraints failing: (\d+)', res.out)
    if res.status != 0 or not m:
        rec.violation('cli_failed', {'case': case, 'mech': {'cmd': 'verify-closure', 'status': res.status}, 'facts': {'stderr': res.err[-500:]}})
    elif int(m.group(2)) != 0:
        rec.violation('file_fails_its_own_constraints', {'case': case, 'mech': {'fmt': spec['fmt']}, 'facts': {'stdout': res.out[-600:]}})
    # ---------------- verify with the constraints file left out: <input name minus its extension>.tdda ---------------
    stem = os.path.splitext(data)[0]
    if rng.random() < 0.5:
        shutil.copy(cpath, os.path.join(d, stem + '.tdda'))
        first = stem.split('.')[0]
        if first != stem:
            # a sibling named after the part before the FIRST dot holds constraints that this data fails
            with open(os.path.join(d, first + '.tdda'), 'w') as f:
                json.dump({'fields': {spec['cols'][0]['name']: {'type': 'date', 'max_nulls': 0, 'max_length': 0, 'min': 10 ** 9}}}, f)
        args = ['verify', data]
        case = case_of(args, 'verify-implicit')
        res = run_cli(ctx, args, d)
        rec.event('cli:verify_implicit_constraints')
        try:
            buf = io.StringIO()
            with contextlib.redirect_stdout(buf), contextlib.redirect_stderr(io.StringIO()):
                v = verify_df(lib_load(dpath), os.path.join(d, stem + '.tdda'), report='all')
            want_out = buf.getvalue() + str(v) + '\n'
            if res.status != 0:
                rec.violation('cli_failed', {'case': case, 'mech': {'cmd': 'verify-implicit', 'status': res.status, 'dots': stem.count('.')},
                                             'facts': {'stderr': res.err[-500:]}})
            elif res.out != want_out:
                rec.violation('verify_report_differs', {'case': case, 'mech': {'cmd': 'verify-implicit', 'dots': stem.count('.')},
                                                        'facts': {'cli': res.out[-600:], 'library': want_out[-600:]}})
        except Exception:
            pass
        for fn in (stem + '.tdda', first + '.tdda'):
            if fn != cons_name and os.path.exists(os.path.join(d, fn)):
                os.unlink(os.path.join(d, fn))
    # ---------------- perturbed constraints so that something fails ------------------
    cons = json.loads(open(cpath).read())
    pert = json.loads(json.dumps(cons))
    for name, fc in pert['fields'].items():
        if 'max' in fc and isinstance(fc['max'], (int, float)) and not isinstance(fc['max'], bool) and rng.random() < 0.7:
            fc['max'] = fc['max'] - abs(fc['max']) * 0.5 - 1
        if 'min' in fc and isinstance(fc['min'], (int, float)) and not isinstance(fc['min'], bool) and rng.random() < 0.3:
            fc['min'] = fc['min'] + abs(fc['min']) * 0.03
        if 'max_nulls' in fc and rng.random() < 0.3:
            fc['max_nulls'] = 0
        if 'max_length' in fc and rng.random() < 0.5:
            fc['max_length'] = max(0, fc['max_length'] - 1)
        if fc.get('type') == 'real' and rng.random() < 0.5:
            fc['type'] = 'int'              # sloppy checking accepts whole-number reals, strict does not
        elif fc.get('type') == 'int' and rng.random() < 0.2:
            fc['type'] = 'bool'
        elif rng.random() < 0.2 and fc.get('type') != 'date':     # (date bounds need their "type": "date" to stay well formed)
            fc['type'] = 'string' if fc.get('type') != 'string' else 'int'
    with open(os.path.join(d, 'pert.tdda'), 'w') as f:
        json.dump(pert, f)
    # ---------------- verify with flags -----------------------------------------------
    solo = []            # what each command gave as a process of its own (for the session run below)
    for _ in range(2):
        flags = []
        kw = {'report': 'all', 'ascii': False}
        r = rng.random()
        if r < 0.3:
            flags.append(rng.choice(['-a', '--all']))
        elif r < 0.6:
            flags.append(rng.choice(['-f', '--fields']))
            kw['report'] = 'fields'
        if rng.random() < 0.4:
            flags.append(rng.choice(['-7', '--ascii']))
            kw['ascii'] = True
        if rng.random() < 0.5:
            e = rng.choice([0, 0.01, 0.05, 0.5])
            flags += ['--epsilon', str(e)]
            kw['epsilon'] = float(e)
        if rng.random() < 0.4:
            t = rng.choice(['strict', 'sloppy'])
            flags += ['-t', t]
            kw['type_checking'] = t
        cfile = rng.choice(['pert.tdda', 'pert.tdda', cons_name])
        v_stdin = spec['fmt'] == 'csv' and rng.random() < 0.2
        pos = ['-' if v_stdin else data, cfile]
        args = ['verify'] + (flags + pos if rng.random() < 0.5 else pos + flags)
        case = case_of(args, 'verify')
        res = run_cli(ctx, args, d, stdin=open(dpath, 'rb').read() if v_stdin else None)
        if v_stdin:
            rec.event('cli:stdin_input')
        rec.event('cli:verify')
        try:
            buf = io.StringIO()
            with contextlib.redirect_stdout(buf), contextlib.redirect_stderr(io.StringIO()):
                v = verify_df(lib_load(dpath), os.path.join(d, cfile), **kw)
            want_out = buf.getvalue() + str(v) + '\n'     # (the library may itself print repair diagnostics)
        except Exception as e:
            want_out = None
            if res.status == 0:
                rec.violation('cli_succeeds_where_library_raises', {'case': case, 'mech': {'cmd': 'verify'}, 'facts': {'library': type(e).__name__}})
            continue
        mech = {'cmd': 'verify', 'report': kw['report'], 'ascii': kw['ascii']}
        if res.status != 0:
            rec.violation('cli_failed', {'case': case, 'mech': dict(mech, status=res.status), 'facts': {'stderr': res.err[-500:]}})
        elif res.out != want_out:
            m1 = re.search(r'passing: (\d+)\n.*failing: (\d+)', res.out)
            rec.violation('verify_report_differs', {'case': case, 'mech': dict(mech, counts_equal=bool(m1) and (int(m1.group(1)), int(m1.group(2))) == (v.passes, v.failures)),
                                                    'facts': {'cli': res.out[-600:], 'library': want_out[-600:]}})
        crosscheck(args, res, stdin=open(dpath, 'rb').read() if v_stdin else None)
        if not v_stdin:
            solo.append({'args': args, 'outfile': None, 'bytes': None, 'stdout': res.out, 'status': res.status})
    # ---------------- detect with flags --------------------------------------------------
    for _ in range(3):
        flags = []
        kw = {'per_constraint': True, 'output_fields': [], 'report': 'records', 'in_place': False}
        if rng.random() < 0.35:
            flags.append('--write-all')
            kw['write_all'] = True
        r = rng.random()
        if r < 0.25:
            flags.append('--no-per-constraint')
            kw.pop('per_constraint')
        elif r < 0.45:
            flags.append('--per-constraint')
        if rng.random() < 0.3:
            flags.append('--index')
            kw['index'] = True
        if rng.random() < 0.3:
            flags.append('--int')
            kw['boolean_ints'] = True
        if rng.random() < 0.3:
            flags.append('--interleave')
            kw['interleave'] = True
        if rng.random() < 0.4:
            e = rng.choice([0, 0.01, 0.5])
            flags += ['--epsilon', str(e)]
            kw['epsilon'] = float(e)
        if rng.random() < 0.3:
            flags.append('-7')
            kw['ascii'] = True
        tail = []
        r = rng.random()
        if r < 0.25:
            flags.append('--no-output-fields')
            kw['output_fields'] = None
        elif r < 0.55 or ('--interleave' in flags and r < 0.8):
            ofs = [c['name'] for c in spec['cols'] if rng.random() < 0.6] or [spec['cols'][0]['name']]
            if '--interleave' in flags and rng.random() < 0.7:
                ofs = [c['name'] for c in spec['cols']]          # (interleaving only acts when every original column is written)
                rng.shuffle(ofs)
            if rng.random() < 0.4:
                ofs = [c['name'] for c in spec['cols']]          # every column named ...
            if rng.random() < 0.5:
                rng.shuffle(ofs)                                  # ... and not necessarily in the file's order
            tail = ['--output-fields'] + ofs
            kw['output_fields'] = ofs
        ofmt = rng.choice(['csv', 'csv', 'parquet', 'dash'])
        outname = {'csv': 'det.csv', 'parquet': 'det.parquet', 'dash': '-'}[ofmt]
        cfile = rng.choice(['pert.tdda', 'pert.tdda', cons_name])
        d_stdin = spec['fmt'] == 'csv' and rng.random() < 0.2
        args = ['detect'] + flags + ['-' if d_stdin else data, cfile, outname] + tail
        case = case_of(args, 'detect', [('detect_out=' + ofmt,)])
        for f in ('det.csv', 'det.parquet', 'lib.csv', 'lib.parquet'):
            if os.path.exists(os.path.join(d, f)):
                os.unlink(os.path.join(d, f))
        res = run_cli(ctx, args, d, stdin=open(dpath, 'rb').read() if d_stdin else None)
        rec.event('cli:detect')
        if d_stdin:
            rec.event('cli:stdin_input')
        libout = None if ofmt == 'dash' else os.path.join(d, 'lib.' + ofmt)
        try:
            buf = io.StringIO()
            with contextlib.redirect_stdout(buf), contextlib.redirect_stderr(io.StringIO()), in_dir(d):
                v = detect_df(lib_load(dpath), os.path.join(d, cfile), outpath=libout if ofmt != 'dash' else '-',
                              rownumber_is_index=False, **kw)
            lib_stdout = buf.getvalue()
            lib_raises = None
        except Exception as e:
            lib_raises = type(e).__name__
        mech = {'cmd': 'detect', 'out': ofmt}
        if lib_raises:
            if res.status == 0:
                rec.violation('cli_succeeds_where_library_raises', {'case': case, 'mech': mech, 'facts': {'library': lib_raises}})
            else:
                # a well-formed invocation on which both the command and the library die has no output to compare
                rec.violation('valid_invocation_crashes', {'case': case, 'mech': dict(mech, exc=lib_raises), 'facts': {'stderr': res.err[-500:]}})
            continue
        if res.status != 0:
            rec.violation('cli_failed', {'case': case, 'mech': dict(mech, status=res.status, exc=(re.findall(r'^(\w+Error)', res.err, re.M) or [None])[-1]),
                                         'facts': {'stderr': res.err[-600:]}})
            continue
        if ofmt == 'dash':
            rec.event('cli:stdout_output')
            if res.out != lib_stdout:
                rec.violation('detect_output_differs', {'case': case, 'mech': mech, 'facts': {'cli': res.out[-500:], 'library': lib_stdout[-500:]}})
        else:
            cp, lp = os.path.join(d, outname), libout
            if os.path.exists(cp) != os.path.exists(lp):
                rec.violation('detect_file_existence_differs', {'case': case, 'mech': mech, 'facts': {'cli': os.path.exists(cp), 'library': os.path.exists(lp)}})
            elif os.path.exists(cp):
                if ofmt == 'csv':
                    same = open(cp, 'rb').read() == open(lp, 'rb').read()
                else:
                    import pandas as pd
                    a, b = pd.read_parquet(cp), pd.read_parquet(lp)
                    same = list(a.columns) == list(b.columns) and a.equals(b)
                if not same:
                    rec.violation('detect_output_differs', {'case': case, 'mech': mech,
                                                            'facts': {'cli': open(cp, 'rb').read()[:400].decode('utf-8', 'replace'),
                                                                      'library': open(lp, 'rb').read()[:400].decode('utf-8', 'replace')}})
            # independent of how either side numbers its output: a row-number column of the command's output file
            # "refers to row numbers from the file" (1-based), i.e. to the positions of the records detected
            if os.path.exists(cp):
                try:
                    import pandas as pd
                    outdf = pd.read_csv(cp, keep_default_na=False, dtype=str) if ofmt == 'csv' else pd.read_parquet(cp)
                    det = v.detected()
                    if 'RowNumber' in outdf.columns and det is not None and 'RowNumber' not in [c['name'] for c in spec['cols']]:
                        rec.event('detect:row_numbers_checked')
                        got_rn = [int(x) for x in outdf['RowNumber']]
                        positions = {lab: k for k, lab in enumerate(lib_load(dpath).index)}
                        want_rn = [positions[i] + 1 for i in det.index]
                        if got_rn != want_rn:
                            rec.violation('row_numbers_do_not_refer_to_the_input_rows',
                                          {'case': case, 'mech': dict(mech, write_all=bool(kw.get('write_all'))),
                                           'facts': {'RowNumber': got_rn[:12], 'failing_input_rows': want_rn[:12]}})
                except (ValueError, KeyError, OSError, TypeError):
                    pass
            if res.out != lib_stdout + str(v) + '\n':
                rec.violation('detect_report_differs', {'case': case, 'mech': mech, 'facts': {'cli': res.out[-400:], 'library': str(v)[-400:]}})
        crosscheck(args, res, stdin=open(dpath, 'rb').read() if d_stdin else None, files=[outname] if ofmt != 'dash' else [])
        cp = os.path.join(d, outname)
        if not d_stdin:
            solo.append({'args': args, 'outfile': None if ofmt == 'dash' else outname,
                     'bytes': open(cp, 'rb').read() if ofmt != 'dash' and os.path.exists(cp) else None,
                     'stdout': res.out, 'status': res.status})
    # ---------------- the same commands as ONE session: several console.main_with_argv calls in one process --
    # (the console entry point is also an in-process API; what a command writes must not depend on the
    # commands that ran before it in that process)
    if len(solo) >= 2 and idx % 2 == 0:
        order = list(range(len(solo)))
        rng.shuffle(order)
        sess = [solo[k] for k in order]
        for f in ('det.csv', 'det.parquet'):
            if os.path.exists(os.path.join(d, f)):
                os.unlink(os.path.join(d, f))

        def session():
            import sys
            from tdda.constraints import console
            for k, c in enumerate(sess):
                st = 0
                try:
                    sys.argv = ['tdda'] + c['args']
                    console.main_with_argv(['tdda'] + c['args'])
                except SystemExit as e:
                    st = e.code if isinstance(e.code, int) else (0 if e.code is None else 1)
                except BaseException as e:
                    st = 'raised ' + type(e).__name__
                sys.stdout.flush()
                if c['outfile'] and os.path.exists(c['outfile']):
                    os.replace(c['outfile'], 'sess_%d.out' % k)
                print('\x1e%d\x1f%s\x1e' % (k, st))
                sys.stdout.flush()
            return 0
        res = forkserver.fork_run(session, ['tdda'], cwd=d, scratch=ctx.scratch)
        rec.event('session:run')
        parts = re.split('\x1e(\\d+)\x1f([^\x1e]*)\x1e\n', res.out)
        case = {'spec': spec, 'argv': [c['args'] for c in sess], 'what': 'session'}
        rec.case(case, nontrivial=True, cls=[fmtcls, ('what=session',)])
        if res.status != 0 or len(parts) != 3 * len(sess) + 1:
            rec.violation('session_failed', {'case': case, 'mech': {'status': res.status}, 'facts': {'stderr': res.err[-500:], 'stdout': res.out[-300:]}})
        else:
            for k, c in enumerate(sess):
                out_k, st_k = parts[3 * k], parts[3 * k + 2]
                sp = os.path.join(d, 'sess_%d.out' % k)
                got = open(sp, 'rb').read() if os.path.exists(sp) else None
                if got is not None and c['outfile'] and c['outfile'].endswith('.parquet') and c['bytes'] is not None and got != c['bytes']:
                    import pandas as pd
                    a, b = pd.read_parquet(io.BytesIO(got)), pd.read_parquet(io.BytesIO(c['bytes']))
                    if list(a.columns) == list(b.columns) and a.equals(b):
                        got = c['bytes']
                rec.event('session:command_compared')
                if st_k != str(c['status']) or out_k != c['stdout'] or got != c['bytes']:
                    rec.violation('command_in_a_session_differs_from_the_command_alone',
                                  {'case': case, 'mech': {'cmd': c['args'][0], 'position': 'first' if k == 0 else 'later',
                                                          'differs': [n for n, x, y in (('status', st_k, str(c['status'])), ('stdout', out_k, c['stdout']),
                                                                                        ('file', got, c['bytes'])) if x != y]},
                                   'facts': {'command': c['args'], 'before_it': [x['args'] for x in sess[:k]],
                                             'alone': [c['status'], c['stdout'][-300:], (c['bytes'] or b'')[:300].decode('utf-8', 'replace')],
                                             'in_session': [st_k, out_k[-300:], (got or b'')[:300].decode('utf-8', 'replace')]}})
        for f in os.listdir(d):
            if f.startswith('sess_'):
                os.unlink(os.path.join(d, f))
    # ---------------- bad invocations -------------------------------------------------------
    bads = [
        ('missing-input', ['discover', 'nosuch.' + spec['fmt'], 'out_bad.tdda'], ['out_bad.tdda']),
        ('missing-input', ['verify', 'nosuch.' + spec['fmt'], cons_name], []),
        ('missing-input', ['detect', 'nosuch.' + spec['fmt'], cons_name, 'bad_det.csv'], ['bad_det.csv']),
        ('missing-input', ['discover', 'nosuch.dat', 'out_bad.tdda'], ['out_bad.tdda']),
        ('missing-input', ['verify', 'nosuch.txt', cons_name], []),
        ('missing-constraints', ['verify', data, 'nosuch.tdda'], []),
        ('missing-constraints', ['detect', data, 'nosuch.tdda', 'bad_det.csv'], ['bad_det.csv']),
        ('unknown-flag', ['discover', '--frobnicate', data, 'out_bad.tdda'], ['out_bad.tdda']),
        ('unknown-flag', ['verify', data, cons_name, '--no-such-flag'], []),
        ('unknown-flag', ['detect', '--bogus', data, 'pert.tdda', 'bad_det.csv'], ['bad_det.csv']),
        ('contradictory', ['detect', '--per-constraint', '--no-per-constraint', data, 'pert.tdda', 'bad_det.csv'], ['bad_det.csv']),
        ('contradictory', ['detect', '--no-output-fields', data, 'pert.tdda', 'bad_det.parquet', '--output-fields', spec['cols'][0]['name']], ['bad_det.parquet']),
    ]
    for known in (cons_name, 'pert.tdda'):
        # a constraints name that is NOT a file although a file with a longer name is: the existing name less its extension
        stem = known[:-len('.tdda')] if known.endswith('.tdda') else None
        if stem and os.path.exists(os.path.join(d, known)) and not os.path.exists(os.path.join(d, stem)):
            bads.append(('missing-constraints', ['verify', data, stem], []))
            bads.append(('missing-constraints', ['detect', data, stem, 'bad_det.csv'], ['bad_det.csv']))
    for kind, args, outs in rng.sample(bads, 4):
        case = case_of(args, 'bad', [('bad=' + kind,)])
        for f in outs:
            if os.path.exists(os.path.join(d, f)):
                os.unlink(os.path.join(d, f))
        before = fsmon.snapshot(d)
        res = run_cli(ctx, args, d)
        after = fsmon.snapshot(d)
        rec.event('cli:bad_invocation')
        rec.event('fs:leftovers_checked')
        diff = fsmon.diff(before, after)
        mech = {'bad': kind, 'cmd': args[0]}
        if res.status == 0:
            rec.violation('bad_invocation_exits_zero', {'case': case, 'mech': mech, 'facts': {'stdout': res.out[-300:], 'stderr': res.err[-300:]}})
        if diff['created'] or diff['modified'] or diff['removed']:
            rec.violation('bad_invocation_touches_files', {'case': case, 'mech': mech, 'facts': {'diff': diff}})
        crosscheck(args, res)


def run_case(ctx, case):
    run_file(ctx, case['spec'], 0)


def run_shard(ctx):
    for i in range(ctx.params['files']):
        run_file(ctx, gen_file(ctx.rng, i + ctx.shard), i)

"""C12 — gentest: the generated test fails when the command behaves differently.

For every successfully generated test (C11 workload) the command is switched, through the
environment variable VT_MUT, to each single change of its behaviour in turn (one line of
stdout/stderr altered, added or removed; one line/byte of one checked file changed; a checked
file not produced; exit status changed) and the generated script is run as a real process.
Invariant at a hook: the generated script is parsed (ast) and every ignore_substrings /
ignore_patterns / remove_lines literal is logged - for a repeatable command they may only be
this run's machine/time tokens.
"""
import os
import re

from vt import common
from vt.checks import gentest_common as G
from vt.gens import commands as GC

ID = 'C12'
TIERS = {
    'quick': dict(shards=16, cases=40, watchdog_s=900),
    'thorough': dict(shards=16, cases=1500, watchdog_s=7000),
}
RULE = ('case = generated test (C11 generator) x one single change of the command after generation; each mutation is '
        'one real run of the generated script (~8-20 per command) plus one unchanged run. Non-trivial = every mutation '
        'run; distinct = fingerprint of (command, flags, mutation).')
ASSUMPTIONS = [
    'mutations on a line that carries one of this run\'s machine/time tokens (user, host, cwd, home, today\'s date) are only recorded: gentest excludes such lines by documented design',
    'a stream that is not checked (--no-stdout / --no-stderr), and files not given as reference files (refmode none), are outside the generated test',
    'a missing or changed file may be reported as FAIL or ERROR by the test named after that file',
]
REQUIRED_MONITORS = ['mutants:stdout', 'mutants:stderr', 'mutants:file', 'mutants:status', 'unchanged:passes',
                     'hook:exclusions_parsed']
REQUIRED_CLASSES = ['how=alter_equivalent', 'how=alter', 'how=add', 'how=remove', 'how=missing', 'how=change']


def excluded_by_design(line, g, date_like_exclusions=()):
    # (the home directory only earns a warning from gentest, not an exclusion, unless it is part of the cwd)
    # date_like_exclusions: date/time stamps gentest itself chose to ignore because they share a line with a
    # plausible "now" - which stamps count as time-specific is gentest's heuristic, and a line carrying one of them
    # is excluded by design wherever it occurs
    toks = [g.tokens['user'], g.tokens['host'], g.workdir] + GC.today_tokens() + list(date_like_exclusions)
    if g.tokens.get('ip'):
        toks.append(g.tokens['ip'])
    return any(t and t in line for t in toks) or GC.TMPDIR_TOKEN in line


def run_case(ctx, case):
    rec = ctx.rec
    g = G.generate(ctx, case, tag='m')
    if g is None or g.res.status != 0 or not os.path.exists(g.script):
        rec.note('generation failed (C11\'s business)')
        return
    spec = case['spec']
    flags = case['flags']
    base = G.run_script(ctx, g)
    rec.case({'case': case, 'mut': None}, nontrivial=True, cls=[('run=unchanged',)])
    if base.status != 0 or base.failed:
        rec.note('generated test does not pass unchanged (C11\'s business)')
        return
    rec.event('unchanged:passes')
    # ---- invariant at a hook: exclusions in the generated script ---------------------
    ex = G.script_exclusions(g.script)
    if ex is not None:
        rec.event('hook:exclusions_parsed')
        import tdda.referencetest.gentest as gt
        allowed = set([g.tokens['user'], g.tokens['host'], g.workdir, gt.TMPDIR, g.tokens.get('ip')] + GC.today_tokens())
        odd = [s for s in ex['substrings'] if isinstance(s, str) and s not in allowed and not s.startswith('<expr')
               and not any(t and t in s for t in allowed)
               and not re.match(r'^[\d/\-. :a-zA-Z,]+$', s)]
        if ex['patterns'] or ex['removals'] or odd:
            rec.violation('exclusions_for_a_repeatable_command', {
                'case': case, 'mech': {'patterns': bool(ex['patterns']), 'removals': bool(ex['removals']), 'substrings': bool(odd)},
                'facts': {'patterns': ex['patterns'][:4], 'removals': ex['removals'][:4], 'odd_substrings': odd[:4]}})
        dates = [s for s in ex['substrings'] if isinstance(s, str) and s not in allowed and re.match(r'^[\d/\-. :a-zA-Z,]+$', s)]
        if dates:
            rec.note('date-like substrings excluded by gentest: %d' % len(dates))
            # which stamps count as "now" is a heuristic, but its documented window is one day either side of the run:
            # when NOTHING the command writes carries a date inside that window, no date-like exclusion is justified
            alltext = '\n'.join(spec['stdout'] + spec['stderr'] + [l for f in spec['files'] if f['kind'] == 'text' for l in f['lines']])
            if not any(t in alltext for t in GC.today_tokens()) and not any(w in alltext for w in ('today', 'now')):
                rec.event('hook:date_exclusions_checked')
                rec.violation('date_excluded_though_no_output_is_dated_within_a_day_of_the_run', {
                    'case': case, 'mech': {'n': len(dates)}, 'facts': {'excluded': dates[:4], 'window': GC.today_tokens()[:1]}})
    # ---- mutations -------------------------------------------------------------------------
    datesubs = []
    if ex is not None:
        datesubs = [s_ for s_ in ex['substrings'] if isinstance(s_, str) and re.match(r'^[\d/\-. :a-zA-Z,]+$', s_)
                    and re.search(r'\d', s_) and len(s_) >= 6]
    for m in GC.mutations(spec):
        t = m['target']
        if t == 'stdout' and '--no-stdout' in flags or t == 'stderr' and '--no-stderr' in flags:
            continue
        if t == 'file' and case['refmode'] == 'none':
            continue
        if t == 'file' and m['name'].startswith(GC.TMP_PREFIX) and case.get('wizard') and not case['wizard']['tmpdir_tracking']:
            continue                      # the user declined the checking of files under $TMPDIR
        blind = False
        if t in ('stdout', 'stderr') and m['how'] in ('alter', 'remove', 'alter_token', 'alter_equivalent'):
            blind = excluded_by_design(spec[t][m['line']], g, datesubs)
        if t == 'file' and m['how'] in ('alter', 'alter_token', 'alter_equivalent') and spec['files'][m['file']]['kind'] == 'text':
            blind = excluded_by_design(spec['files'][m['file']]['lines'][m['line']], g, datesubs)
        # history: a normal run of the command leaves its outputs behind, THEN the command changes
        try:
            G.bare_run(g.workdir, g.env, names=[f['name'] for f in spec['files']])
        except Exception:
            pass
        res = G.run_script(ctx, g, mut=m['k'])
        rec.case({'case': case, 'mut': m}, nontrivial=True, cls=[('target=' + t,), ('how=' + m['how'],), ('blind=%d' % blind,)])
        rec.event('mutants:' + t)
        expect = {'stdout': 'test_stdout', 'stderr': 'test_stderr', 'status': 'test_exit_code'}.get(t) or G.test_name_for_file(m['name'])
        facts = {'mutation': m, 'failed_tests': res.failed, 'status': res.status, 'stderr_tail': res.err[-500:], 'argv': g.argv}
        mech = {'target': t, 'how': m['how'], 'kind': spec['files'][m['file']]['kind'] if t == 'file' else None}
        if t == 'file' and m['how'] in ('alter', 'append') and spec['files'][m['file']]['kind'] == 'binary':
            old_b = bytes.fromhex(spec['files'][m['file']]['hex'])
            new_b = bytes.fromhex(GC.mutated(spec, m)['files'][m['file']]['hex'])
            if old_b.decode('latin-1').splitlines() == new_b.decode('latin-1').splitlines() and res.status == 0:
                # gentest may classify a tiny "binary" file as text; text comparison is line-based, so a
                # change confined to line-terminator characters is outside what it can see (C04's reading)
                rec.unspecified('change confined to line-terminator characters of a file compared as text')
                continue
        if blind:
            if not any(f.startswith(expect) for f in res.failed):
                rec.note('documented blind spot: change on a line carrying a machine/time token not noticed')
            continue
        if res.status == 0 and not res.failed:
            rec.violation('change_not_noticed', {'case': case, 'mech': mech, 'facts': facts})
        elif not any(f == expect or (t == 'file' and f.startswith(expect)) for f in res.failed):
            rec.violation('change_reported_by_another_test', {'case': case, 'mech': dict(mech, reported_by=res.failed[:3]), 'facts': facts})
        elif t != 'status' and 'test_exit_code' in res.failed:
            rec.violation('content_change_fails_exit_code_test', {'case': case, 'mech': mech, 'facts': facts})
        else:
            extra = [f for f in res.failed if f != expect]
            if extra:
                rec.note('other tests failed as well')


def run_shard(ctx):
    for i in range(ctx.params['cases']):
        run_case(ctx, G.gen_case(ctx.rng, i + ctx.shard * 1000 + 500000))

"""C16 — CSV files described by CSVW metadata load with the declared types and values.

Part A (format grid): every date / date-time pattern of the documented family is written into
a one-column CSV by an independent renderer, described by CSVW metadata and loaded with the
real csv2pandas; M-CONTRACT on the real csvw_date_format_to_md_date_format checks each
translation against strptime on the harness's own rendering.
Part B (tables): typed tables (boolean / integer / number / string / date / datetime, nulls as
empty cells) x delimiter x encoding x header present/absent x boolean spellings, loaded through
csv2pandas and gen_pandas_kwargs; expected frame built from the typed values.
"""
import collections
import contextlib
import csv
import datetime
import io
import json
import math
import os

from vt import common
from vt.monitors import contracts, reach
from vt.oracles import csvwdate as CD

ID = 'C16'
TIERS = {
    'quick': dict(shards=16, tables=400, grid_share=1, watchdog_s=900),
    'thorough': dict(shards=16, tables=30000, grid_share=3, watchdog_s=5000),
}
RULE = ('part A: the full grid of %d date/date-time patterns (d dd M MM yy yyyy x separators - / . space x 3 field orders, '
        'x time parts HH mm ss S SS SSS with : or . and space/T joins) x 4 instants, one CSV + metadata + csv2pandas load '
        'per pattern; part B: generated typed tables x delimiter {, | tab ;} x encoding {utf-8, latin-1, utf-16} x header '
        'present/absent x boolean spellings. Non-trivial = table with at least one non-null cell; distinct = fingerprint.'
        % len(CD.grid()))
ASSUMPTIONS = [
    "nulls are written as empty cells (CSVW's default null marker)",
    'dtype families: integer -> integer (nullable when nulls), boolean -> boolean, number -> float, string -> string/object, date and datetime -> datetime64; only the family is compared, not the exact width',
    'two-digit years are chosen inside 1969-2068 (the POSIX pivot strptime applies); patterns with letters outside the documented family are not judged',
    'header absent is declared with "header": false, with "headerRowCount": 0, or with both',
]
REQUIRED_MONITORS = ['grid:patterns_loaded', 'tables:loaded_with_options', 'contract:csvw_date_format:judged', 'tables:loaded', 'cells:compared',
                     'reach:to_pandas_read_csv_args', 'reach:process_dialect']
REQUIRED_CLASSES = ['replaces=stale', 'replaces=alone', 'delimiter=,', 'delimiter=|', 'delimiter=tab', 'delimiter=;', 'encoding=utf-8', 'encoding=latin-1',
                    'encoding=utf-16', 'header=1', 'header=0', 'titles=1', 'bool=true|false', 'bool=Y|N', 'bool=1|0',
                    'type=boolean', 'type=integer', 'type=number', 'type=string', 'type=date', 'type=datetime']
_counter = collections.Counter()
_installed = False
STRINGS = ['alpha', 'Ünï', 'x y', 'a,b', 'q"uote', 'semi;colon', 'pi|pe', 'tab\there', 'NA', 'null', 'None', 'n/a', 'NaN', '0',
           'true', ' lead', 'é', '-', '#hash', '1e5', "it's",
           # Latin-1 is not Windows-1252: the C1 control range and the 0xA0-0xFF letters that a "helpful" re-labelling changes
           'flat 4 #12', 'a # b',
           'c1\x9bcsi', '\x93quoted\x94', 'euro\x80', 'nbsp\xa0here', '\xff\xfe', 'ÿþ', '¤ ¦ ¨ ´ ¸ ¼ ½ ¾']


def install():
    global _installed
    if _installed:
        return
    _installed = True
    contracts.attach('csvwdate')
    from tdda.serial import csvw, pandasio, reader
    reach.wrap_count(pandasio, 'to_pandas_read_csv_args', _counter)
    reader.to_pandas_read_csv_args = pandasio.to_pandas_read_csv_args
    reach.wrap_count(csvw.CSVWMetadata, 'process_dialect', _counter)


def write_table(d, name, header, rows, delimiter, encoding):
    path = os.path.join(d, name + '.csv')
    with open(path, 'w', encoding=encoding, newline='') as f:
        w = csv.writer(f, delimiter=delimiter, lineterminator='\n')
        if header:
            w.writerow(header)
        for r in rows:
            w.writerow(r)
    return path


def write_md(d, name, columns, dialect, url='same', replaces=None):
    md = {'@context': 'http://www.w3.org/ns/csvw', 'url': name + '.csv', 'tableSchema': {'columns': columns}}
    if replaces:
        # provenance annotation naming the description this one replaces (a JSON string); tdda falls back on ITS encoding and
        # delimiter where the dialect gives none
        md['dc:replaces'] = json.dumps({'resources': [{'path': name + '.csv', 'encoding': replaces['encoding'],
                                                       'dialect': {'csv': {'delimiter': replaces['delimiter']}}}]})
    if url == 'absent':
        del md['url']
    elif url == 'other-existing':
        # one schema file used for several data files: its url names ANOTHER file that exists beside this one
        # (an explicitly given path wins over the url)
        md['url'] = 'other-data.csv'
        with open(os.path.join(d, 'other-data.csv'), 'w') as f:
            f.write(','.join('c%d' % k for k in range(len(columns))) + '\n' + ','.join(['1'] * len(columns)) + '\n')
    elif url == 'other-missing':
        md['url'] = 'no-such-file.csv'
    if dialect:
        md['dialect'] = dialect
    path = os.path.join(d, name + '-metadata.json')
    with open(path, 'w') as f:
        json.dump(md, f)
    return path


def load(path, mdpath, **opts):
    from tdda.serial.reader import csv2pandas
    err = io.StringIO()
    with contextlib.redirect_stderr(err), contextlib.redirect_stdout(err):
        return csv2pandas(path, mdpath=mdpath, **opts)


def family(dtype):
    s = str(dtype).lower()
    if 'datetime' in s:
        return 'datetime'
    if 'bool' in s:
        return 'boolean'
    if 'int' in s:
        return 'integer'
    if 'float' in s or 'double' in s:
        return 'number'
    if s in ('object', 'str', 'string') or s.startswith('string'):
        return 'string'
    return s


def cell_equal(fam, got, want):
    import pandas as pd
    if want is None:
        return got is None or (not isinstance(got, (list, dict)) and pd.isnull(got))
    if got is None or pd.isnull(got):
        return False
    if fam == 'datetime':
        return pd.Timestamp(got).to_pydatetime() == want
    if fam == 'number':
        return float(got) == float(want)
    if fam == 'integer':
        return int(got) == want
    if fam == 'boolean':
        return bool(got) == want
    return str(got) == want


# ---------------------------------------------------------------- part A
def run_grid_case(ctx, case):
    rec = ctx.rec
    install()
    fmt, base = case['fmt'], case['base']
    d = ctx.scratch
    has_time = 'HH' in fmt
    rows = [[CD.render(fmt, dt)] for dt in CD.INSTANTS]
    path = write_table(d, 'grid', ['when'], rows, ',', 'utf-8')
    cols = [{'name': 'when', 'datatype': {'base': base, 'format': fmt}}]
    mdpath = write_md(d, 'grid', cols, None)
    rec.case(case, nontrivial=True, cls=[('part=grid',), ('type=' + base,), ('fraction=%d' % fmt.count('S'),)])
    try:
        df = load(path, mdpath)
    except Exception as e:
        m = common.short_tb(e)
        broken = contracts.drain()
        rec.violation('grid_load_raises', {'case': case, 'mech': {'exc': m['exc'], 'where': m['where'], 'contract_fired': bool(broken)},
                                           'facts': dict(m, rows=rows[:2], contract=[b['facts'] for b in broken][:1])})
        return
    broken = contracts.drain()
    rec.event('grid:patterns_loaded')
    fam = family(df['when'].dtype) if 'when' in df.columns else None
    want = [CD.carried(fmt, dt) for dt in CD.INSTANTS]
    if fam != 'datetime':
        rec.violation('grid_not_datetime', {'case': case, 'mech': {'dtype': str(df.dtypes.iloc[0]), 'contract_fired': bool(broken)},
                                            'facts': {'values': [str(v) for v in df.iloc[:, 0]][:2], 'rows': rows[:2]}})
    else:
        got = [t.to_pydatetime() for t in df['when']]
        if got != want:
            rec.violation('grid_instants_differ', {'case': case, 'mech': {'contract_fired': bool(broken)},
                                                   'facts': {'read': [str(g) for g in got][:2], 'written': [str(w) for w in want][:2], 'text': rows[:2]}})
    for b in broken:
        rec.violation('contract:csvw_date_format', {'case': case, 'mech': {'has_time': has_time}, 'facts': b['facts']})


# ---------------------------------------------------------------- part B
def gen_table(rng, i):
    types = ['boolean', 'integer', 'number', 'string', 'date', 'datetime']
    n = rng.choice([1, 2, 3, 6, 12])
    ncols = rng.randint(1, 5)
    spell = ['true|false', 'Y|N', '1|0'][i % 3]
    cols = []
    for j in range(ncols):
        t = types[(i + j) % len(types)] if j == 0 else rng.choice(types)
        vals = []
        whole = t == 'number' and rng.random() < 0.3      # a declared number column whose values all happen to be whole
        for _ in range(n):
            if rng.random() < 0.2:
                vals.append(None)
            elif whole:
                vals.append(float(rng.randint(-99, 99)))
            elif t == 'boolean':
                vals.append(rng.random() < 0.5)
            elif t == 'integer':
                vals.append(rng.choice([0, 1, -1, rng.randint(-10 ** 6, 10 ** 6), 2 ** 40]))
            elif t == 'number':
                vals.append(rng.choice([0.5, -2.25, 1e-3, float(rng.randint(-99, 99)), round(rng.uniform(-1e4, 1e4), 3)]))
            elif t == 'string':
                vals.append(rng.choice(STRINGS))
            elif t == 'date':
                vals.append(datetime.datetime(rng.randint(1971, 2060), rng.randint(1, 12), rng.randint(1, 28)).isoformat())
            else:
                vals.append(datetime.datetime(rng.randint(1971, 2060), rng.randint(1, 12), rng.randint(1, 28), rng.randint(0, 23),
                                              rng.randint(0, 59), rng.randint(0, 59)).isoformat())
        fmt = None
        if t == 'date' and rng.random() < 0.6:
            fmt = rng.choice(['dd/MM/yyyy', 'yyyy-MM-dd', 'd.M.yyyy', 'MM-dd-yyyy', 'dd MM yy'])
        if t == 'datetime' and rng.random() < 0.6:
            fmt = rng.choice(['dd/MM/yyyy HH:mm:ss', 'yyyy-MM-ddTHH:mm:ss', 'yyyy-MM-dd HH:mm', 'd.M.yy HH.mm.ss'])
        cols.append({'name': rng.choice(['a', 'b', 'naïve', 'x y', 'Col', 'id', 'when', 'ß']) + str(j), 'type': t, 'values': vals,
                     'format_spelling': rng.choice(['inner', 'inner', 'column+string', 'column+object']),
                     'format': fmt, 'bool': rng.choice([spell, spell, 'true|false', 'Y|N', '1|0', 'yes|no', 'T|F']) if t == 'boolean' else None})
    if rng.random() < 0.3:
        # CSVW "titles": what the file's header line calls a column, while the frame is to use "name"
        how = rng.choice(['str', 'list', 'dict'])
        for j, c in enumerate(cols):
            if j == 0 or rng.random() < 0.6:
                c['title'] = 'Title of %s' % c['name']
                c['titles_as'] = how
    return {'cols': cols, 'nrows': n, 'delimiter': [',', '|', '\t', ';'][i % 4], 'encoding': ['utf-8', 'latin-1', 'utf-16'][(i // 4) % 3],
            'header': (i // 2) % 2 == 0 or rng.random() < 0.5, 'bool': spell,
            # csv2pandas's own loading options: they govern columns the metadata does NOT type; declared columns keep their declared types
            'load_opts': rng.choice([{}, {}, {}, {'upgrade_possible_ints': True}, {'upgrade_types': False, 'upgrade_possible_ints': True},
                                     {'upgrade_types': False}]),
            'header_decl': ['both', 'header', 'count', 'count-beside-header-true'][(i // 5) % 4],
            'url': rng.choice(['same', 'same', 'same', 'absent', 'other-existing', 'other-missing']),
            'dialect_extras': {k_: v_ for k_, v_ in (('commentPrefix', '#'), ('quoteChar', '"'), ('doubleQuote', True), ('skipRows', 0),
                                                      ('skipInitialSpace', False), ('lineTerminators', ['\r\n', '\n']), ('trim', False),
                                                      ('skipBlankRows', False), ('skipColumns', 0))
                               if rng.random() < 0.2},
            # 'stale': annotation disagreeing with an explicit dialect (the dialect is what describes the file); 'alone': the
            # dialect leaves encoding and delimiter to the annotation
            'replaces': rng.choice([None, None, None, 'stale', 'stale', 'same', 'alone'])}


def run_table_case(ctx, case):
    rec = ctx.rec
    install()
    t = case['table']
    d = ctx.scratch
    rows = []
    for r in range(t['nrows']):
        row = []
        for c in t['cols']:
            v = c['values'][r]
            if v is None:
                row.append('')
            elif c['type'] == 'boolean':
                tv, fv = (c.get('bool') or t['bool']).split('|')
                row.append(tv if v else fv)
            elif c['type'] in ('date', 'datetime'):
                dt = datetime.datetime.fromisoformat(v)
                if c['format']:
                    row.append(CD.render(c['format'], dt))
                else:
                    row.append(dt.strftime('%Y-%m-%d') if c['type'] == 'date' else dt.strftime('%Y-%m-%dT%H:%M:%S'))
            else:
                row.append(str(v))
        rows.append(row)
    enc = t['encoding']
    if enc == 'latin-1':
        for c in t['cols']:
            c['name'] = c['name'].encode('latin-1', 'replace').decode('latin-1')
    names = [c['name'] for c in t['cols']]
    headline = [c.get('title') or c['name'] for c in t['cols']]
    try:
        path = write_table(d, 'tab', headline if t['header'] else None, rows, t['delimiter'], enc)
    except UnicodeEncodeError:
        return
    columns = []
    for c in t['cols']:
        dt = c['type']
        if c['type'] == 'boolean' and (c.get('bool') or t['bool']) != 'true|false':
            dt = {'base': 'boolean', 'format': c.get('bool') or t['bool']}
        elif c['format']:
            dt = {'base': c['type'], 'format': c['format']}
        col = {'name': c['name'], 'datatype': dt}
        sp = c.get('format_spelling', 'inner')
        if isinstance(dt, dict) and sp != 'inner':
            # the same format given at column level (the spelling tdda's own metadata files use), beside a plain-string
            # datatype or beside an object-form datatype that has no format of its own
            col['format'] = dt['format']
            col['datatype'] = dt['base'] if sp == 'column+string' else {'base': dt['base']}
        if c.get('title'):
            col['titles'] = {'str': c['title'], 'list': [c['title'], 'another title'], 'dict': {'en': [c['title']]}}[c['titles_as']]
        columns.append(col)
    dialect = {'delimiter': t['delimiter'], 'encoding': enc}
    for k_, v_ in (t.get('dialect_extras') or {}).items():
        dialect[k_] = v_          # dialect properties written out at their CSVW defaults (or harmless values): no effect on the cells
    if not t['header']:
        how = t.get('header_decl', 'both')
        if how in ('both', 'header'):
            dialect['header'] = False
        if how in ('both', 'count', 'count-beside-header-true'):
            dialect['headerRowCount'] = 0
        if how == 'count-beside-header-true':
            dialect['header'] = True         # CSVW: "header" is ignored when "headerRowCount" is given
    replaces = None
    if t.get('replaces') == 'stale':
        replaces = {'encoding': {'utf-8': 'latin-1', 'latin-1': 'utf-16', 'utf-16': 'utf-8'}.get(enc, 'utf-8'),
                    'delimiter': {',': ';', '|': ',', '\t': '|', ';': '\t'}[t['delimiter']]}
    elif t.get('replaces') in ('same', 'alone'):
        replaces = {'encoding': enc, 'delimiter': t['delimiter']}
        if t['replaces'] == 'alone':
            del dialect['delimiter'], dialect['encoding']
    mdpath = write_md(d, 'tab', columns, dialect, url=t.get('url', 'same'), replaces=replaces)
    nonnull = any(v is not None for c in t['cols'] for v in c['values'])
    cls = [('part=table',), ('delimiter=' + ('tab' if t['delimiter'] == '\t' else t['delimiter']),), ('encoding=' + enc,),
           ('header=%d' % t['header'],), ('bool=' + t['bool'],), ('titles=%d' % any(c.get('title') for c in t['cols']),), ('url=' + t.get('url', 'same'),), ('replaces=%s' % t.get('replaces'),),
           ('format_spellings=' + '+'.join(sorted(set(c.get('format_spelling', 'inner') for c in t['cols'] if c['type'] in ('date', 'datetime', 'boolean')))),),
           ('load_opts=' + ('+'.join('%s=%s' % kv for kv in sorted((t.get('load_opts') or {}).items())) or 'default'),),
           ('n_bool_spellings=%d' % len(set(c.get('bool') for c in t['cols'] if c['type'] == 'boolean')),)] + [('type=' + c['type'],) for c in t['cols']]
    rec.case(case, nontrivial=nonnull, cls=cls)
    mech0 = {'header': t['header'], 'header_decl': None if t['header'] else t.get('header_decl', 'both')}
    opts = t.get('load_opts') or {}
    if opts:
        mech0['load_opts'] = '+'.join('%s=%s' % kv for kv in sorted(opts.items()))
        rec.event('tables:loaded_with_options')
    try:
        df = load(path, mdpath, **opts)
    except Exception as e:
        m = common.short_tb(e)
        contracts.drain()
        rec.violation('table_load_raises', {'case': case, 'mech': dict(mech0, exc=m['exc'], where=m['where'],
                                                                       has_dates=any(c['type'] in ('date', 'datetime') for c in t['cols'])),
                                            'facts': m})
        return
    contracts.drain()
    rec.event('tables:loaded')
    if [str(c) for c in df.columns] != names:
        rec.violation('column_names', {'case': case, 'mech': mech0, 'facts': {'loaded': [str(c) for c in df.columns], 'declared': names}})
        return
    if len(df) != t['nrows']:
        rec.violation('row_count', {'case': case, 'mech': mech0, 'facts': {'loaded': len(df), 'written': t['nrows']}})
        return
    for c in t['cols']:
        want_fam = {'date': 'datetime'}.get(c['type'], c['type'])
        got_fam = family(df[c['name']].dtype)
        allnull = all(v is None for v in c['values'])
        if got_fam != want_fam and not (allnull and want_fam in ('datetime',)):
            rec.violation('declared_type', {'case': case, 'mech': dict({'declared': c['type'], 'loaded_family': got_fam, 'all_null': allnull,
                                                                        'has_format': bool(c['format'])},
                                                                       **({'load_opts': mech0['load_opts']} if opts else {})),
                                            'facts': {'column': c['name'], 'dtype': str(df[c['name']].dtype)}})
            continue
        for r in range(t['nrows']):
            want = c['values'][r]
            if want is not None and c['type'] in ('date', 'datetime'):
                want = datetime.datetime.fromisoformat(want)
                if c['format']:
                    want = CD.carried(c['format'], want)
            got = df[c['name']].iloc[r]
            rec.event('cells:compared')
            if not cell_equal(want_fam, got, want):
                sval = want if isinstance(want, str) else None
                rec.violation('cell_value', {
                    'case': case,
                    'mech': {'declared': c['type'], 'string_is_pandas_na_token': sval in ('NA', 'null', 'None', 'n/a', 'NaN', 'NULL', 'nan', 'N/A', '#N/A', '<NA>'),
                             'became_null': got is None or (not isinstance(got, str) and bool(__import__('pandas').isnull(got)))},
                    'facts': {'column': c['name'], 'row': r, 'written': common.jsafe(want), 'loaded': repr(got)}})
                break


def run_case(ctx, case):
    if case['part'] == 'grid':
        run_grid_case(ctx, case)
    else:
        run_table_case(ctx, case)


def run_shard(ctx):
    rng = ctx.rng
    g = CD.grid()
    share = ctx.params['grid_share']
    for k in range(share):
        for j, fmt in enumerate(g):
            if j % ctx.nshards == ctx.shard:
                base = 'datetime' if ('HH' in fmt or (k + j) % 2) else 'date'
                run_case(ctx, {'part': 'grid', 'fmt': fmt, 'base': base})
    for i in range(ctx.params['tables']):
        run_case(ctx, {'part': 'table', 'table': gen_table(rng, i + ctx.shard)})
    for k, v in _counter.items():
        ctx.rec.event('reach:' + k, v)
    _counter.clear()
    for k, v in contracts.EVALS.items():
        ctx.rec.event('contract:' + k, v)
    contracts.EVALS.clear()

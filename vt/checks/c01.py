"""C01 — constraints discovered from a DataFrame are satisfied by that DataFrame.

Workload: closure histories discover_df -> (to_dict | to_json + file) -> verify_df / detect_df
on freshly rebuilt copies of the same frame, over every recognised column type x null
pattern x row count x {rex off/on} x {dict, .tdda file} x {verify, detect} x {repair on/off}.
Monitors: verdict recorder (every per-field verdict is logged), M-CONTRACT on the rexpy
functions (so a rex failure is attributed to its root), M-FS on the scratch directory.
Oracle (code-independent): no exception, zero failures, every verdict truthy, no detected rows.
"""
import collections
import contextlib
import io
import os

from vt import common
from vt.gens import frames as F
from vt.monitors import contracts, reach

ID = 'C01'
TIERS = {
    'quick': dict(shards=16, cases=800, watchdog_s=900),
    'thorough': dict(shards=16, cases=30000, big_columns=16, long_null_runs=40, watchdog_s=7000),
}
RULE = ('case = frame spec (1-4 columns drawn from 25 recognised column kinds, null pattern none/one/two/many/all, '
        '0-60 rows, hostile field names) x rex off/on x transport dict/file x verify/detect x repair on/off; the '
        'first cases of every shard iterate kinds x null patterns; plus big string columns (>4000 distinct) and frames with runs of 1000+ nulls. Non-trivial = at least one constraint beyond '
        '`type` was discovered; distinct = fingerprint of spec + configuration.')
ASSUMPTIONS = [
    "recognised types = the list in the property's quantifier; pandas-3 `str` and `string` extension columns are generated only as an extra, separately reported class",
    'a field for which nothing is discovered is vacuous (counted, not a pass)',
]
REQUIRED_MONITORS = ['frames:big_string_column', 'frames:long_null_run', 'closure:verify', 'closure:detect', 'verdicts:observed', 'reach:discover_field_constraints',
                     'reach:find_rexes', 'reach:repair_field_types']
REQUIRED_CLASSES = ['kind=%s' % k for k in F.RECOGNISED] + ['rex=1', 'rex=0', 'transport=file', 'transport=dict',
                                                             'mode=verify', 'mode=detect', 'repair=1', 'repair=0',
                                                             'rows=0', 'nulls=all']
_counter = collections.Counter()
_installed = False


def install():
    global _installed
    if _installed:
        return
    _installed = True
    contracts.attach('rexpy')
    from tdda.constraints import baseconstraints
    from tdda.constraints.pd import constraints as pdc
    reach.wrap_count(baseconstraints.BaseConstraintDiscoverer, 'discover_field_constraints', _counter)
    reach.wrap_count(pdc.PandasConstraintCalculator, 'find_rexes', _counter)
    reach.wrap_count(pdc.PandasConstraintVerifier, 'repair_field_types', _counter)
    reach.wrap_count(pdc.PandasConstraintDetector, 'write_detected_records', _counter)
    for k in ('verify_min_constraint', 'verify_max_constraint', 'verify_rex_constraint', 'verify_tdda_type_constraint',
              'verify_allowed_values_constraint', 'verify_no_duplicates_constraint', 'verify_sign_constraint',
              'verify_max_nulls_constraint', 'verify_min_length_constraint', 'verify_max_length_constraint'):
        reach.wrap_count(baseconstraints.BaseConstraintVerifier, k, _counter)


def flush(rec):
    for k, v in _counter.items():
        rec.event('reach:' + k, v)
    _counter.clear()
    for k, v in contracts.EVALS.items():
        rec.event('contract:' + k, v)
    contracts.EVALS.clear()


def gen_case(rng, i):
    nk = len(F.RECOGNISED)
    if i < nk * 2:
        kind = F.RECOGNISED[i % nk]
        spec = F.gen_frame(rng, kinds=[kind], nrows=rng.choice([0, 1, 2, 5, 21, 30]) if i >= nk else rng.choice([3, 21, 30]))
        if i >= nk:
            spec['cols'][0] = F.gen_column(rng, kind, spec['nrows'], name=spec['cols'][0]['name'],
                                           nulls=['all', 'one', 'two', 'many'][(i // nk + i) % 4])
    else:
        pool = F.RECOGNISED if rng.random() < 0.93 else F.ALL_KINDS
        spec = F.gen_frame(rng, pool=pool)
    return {'spec': spec, 'rex': (i % 2 == 0) if i < 4 * nk else rng.random() < 0.5,
            'transport': rng.choice(['dict', 'file']), 'mode': rng.choice(['verify', 'detect']),
            'repair': rng.random() < 0.5,
            'detect_opts': {'per_constraint': rng.random() < 0.5, 'write_all': rng.random() < 0.3,
                            'output_fields': rng.choice([None, []]), 'outfile': rng.choice([None, 'csv', 'parquet'])}}


def run_case(ctx, case):
    rec = ctx.rec
    install()
    from tdda.constraints import discover_df, verify_df, detect_df
    spec = case['spec']
    kinds = sorted(set(c['kind'] for c in spec['cols']))
    extra = [k for k in kinds if k in F.EXTRA_KINDS]
    kind_of = {c['name']: c['kind'] for c in spec['cols']}
    nulls_of = {c['name']: c['nulls'] for c in spec['cols']}
    cls = [('kind=' + k,) for k in kinds] + [('nulls=' + c['nulls'],) for c in spec['cols']] + \
          [('rows=%d' % spec['nrows'],), ('rex=%d' % case['rex'],), ('transport=' + case['transport'],),
           ('mode=' + case['mode'],), ('repair=%d' % case['repair'],)]
    cfg = {'rex': case['rex'], 'transport': case['transport'], 'mode': case['mode'], 'repair': case['repair']}
    err = io.StringIO()
    stage = 'build'
    try:
        df = F.build_frame(spec)
        stage = 'discover'
        with contextlib.redirect_stderr(err), contextlib.redirect_stdout(err):
            cons = discover_df(df, inc_rex=case['rex'])
        broken = contracts.drain()
        if cons is None:
            rec.case(case, nontrivial=False, cls=cls + [('discovered=nothing',)])
            if any(FAM_RECOGNISED(k) for k in kinds) and spec['cols']:
                # recognised columns always yield at least a type constraint
                rec.violation('nothing_discovered', {'case': case, 'mech': {'kinds': kinds}, 'facts': {}})
            return
        d = cons.to_dict()
        nkinds = sum(len(v) for v in d['fields'].values())
        rec.case(case, nontrivial=nkinds > len(d['fields']), cls=cls)
        for name in kind_of:
            if name not in d['fields']:
                rec.note('vacuous field (nothing discovered): kind=%s' % kind_of[name])
        stage = 'transport'
        if case['transport'] == 'file':
            path = os.path.join(ctx.scratch, 'c01.tdda')
            with open(path, 'w') as f:
                f.write(cons.to_json())
            target = path
        else:
            target = d
        stage = case['mode']
        df2 = F.build_frame(spec)
        with contextlib.redirect_stderr(err), contextlib.redirect_stdout(err):
            if case['mode'] == 'verify':
                v = verify_df(df2, target, repair=case['repair'])
            else:
                o = case['detect_opts']
                outpath = None
                if o['outfile']:
                    outpath = os.path.join(ctx.scratch, 'c01_detect.' + o['outfile'])
                    if os.path.exists(outpath):
                        os.unlink(outpath)
                v = detect_df(df2, target, repair=case['repair'], per_constraint=o['per_constraint'],
                              write_all=o['write_all'], output_fields=o['output_fields'], outpath=outpath)
        broken += contracts.drain()
    except Exception as e:
        broken = contracts.drain()
        m = common.short_tb(e)
        if stage == 'build':
            raise
        rec.case(case, cls=cls + [('raised',)]) if stage == 'discover' else None
        if extra:
            rec.unspecified('exception with a column type outside the recognised list (%s)' % ','.join(extra))
            return
        rec.violation('raises', {'case': case,
                                 'mech': {'stage': stage, 'exc': m['exc'], 'where': m['where']},
                                 'facts': dict(m, cfg=cfg, kinds=kinds, rows=spec['nrows'], stderr=err.getvalue()[-400:])})
        return
    rec.event('closure:' + case['mode'])
    failed = []
    for name, fv in v.fields.items():
        for kind, ok in fv.items():
            rec.event('verdicts:observed')
            if not ok:
                failed.append((name, kind))
    detected_rows = None
    if case['mode'] == 'detect':
        det = v.detected()
        if det is not None and not case['detect_opts']['write_all']:
            detected_rows = len(det)
        nfail = getattr(v.detection, 'n_failing_records', 0) if v.detection else 0
        if nfail:
            detected_rows = nfail
        o = case['detect_opts']
        if o['outfile'] and not failed:
            p = os.path.join(ctx.scratch, 'c01_detect.' + o['outfile'])
            if os.path.exists(p):
                rec.violation('detect_file_without_failure', {'case': case, 'mech': {'fmt': o['outfile']}, 'facts': {}})
    if failed or v.failures or detected_rows:
        bad_kinds = sorted(set(kind_of.get(n, '?') for n, _ in failed))
        if extra and set(bad_kinds) <= set(extra):
            rec.unspecified('own constraints failed for a column type outside the recognised list (%s)' % ','.join(bad_kinds))
            return
        root = sorted(set(b['contract'] for b in broken))
        rec.violation('own_constraints_fail', {
            'case': case,
            'mech': {'constraint_kinds': sorted(set(k for _, k in failed)),
                     'col_families': sorted(set('tz-aware' if k in F.TZ_KINDS else F.FAMILY.get(k, k) for k in bad_kinds)),
                     'root_contracts': root},
            'facts': {'failed': failed[:6], 'col_kinds': bad_kinds, 'failures': v.failures, 'detected_rows': detected_rows, 'cfg': cfg,
                      'constraints': {n: d['fields'].get(n) for n, _ in failed[:3]},
                      'stderr': err.getvalue()[-300:]}})
    elif broken:
        for b in broken:
            rec.note('rexpy contract %s fired without a C01 failure' % b['contract'])


def FAM_RECOGNISED(kind):
    return kind in F.RECOGNISED


def big_column_case(rng):
    """A string column with more distinct values than rexpy takes whole (4000): regular ids plus a few values of other
    shapes - the empty string among them - that a sample can easily leave out."""
    n = rng.choice([4100, 12001, 20000, 30000])
    vals = ['id%05d' % k for k in range(n)] + rng.choice([[''], ['', 'x-1'], ['zz 9'], ['']])
    rng.shuffle(vals)
    spec = {'nrows': len(vals), 'cols': [{'name': 'code', 'kind': 'str_obj', 'values': vals, 'nulls': 'none'}]}
    return {'spec': spec, 'rex': True, 'transport': rng.choice(['dict', 'file']), 'mode': rng.choice(['verify', 'detect']), 'repair': False,
            'detect_opts': {'per_constraint': True, 'write_all': False, 'output_fields': None, 'outfile': None}, 'prng': rng.randrange(2 ** 31)}


def long_null_run_case(rng):
    """More than a thousand rows in which columns of several kinds have their few values behind (or before, or around) a
    run of 1000+ nulls: whatever looks only at the first rows of a column sees nothing but nulls."""
    lead = rng.choice([1000, 1001, 1200, 2500, 5000])
    few = rng.randint(1, 6)
    where = rng.choice(['values-last', 'values-last', 'values-first', 'values-middle'])
    cols = []
    for kind in rng.sample(['objbool', 'dateobj', 'str_obj', 'Int64', 'float64', 'dt_ns', 'boolean', 'cat'], rng.randint(2, 5)):
        c = F.gen_column(rng, kind, few, name='c_' + kind, nulls='none')
        vals = list(c['values'])
        nul = [None] * lead
        c['values'] = nul + vals if where == 'values-last' else vals + nul if where == 'values-first' else nul[:lead // 2] + vals + nul[lead // 2:]
        c['nulls'] = 'many'
        cols.append(c)
    spec = {'nrows': lead + few, 'cols': cols}
    return {'spec': spec, 'rex': rng.random() < 0.5, 'transport': rng.choice(['dict', 'file']), 'mode': rng.choice(['verify', 'detect']),
            'repair': rng.random() < 0.5,
            'detect_opts': {'per_constraint': True, 'write_all': False, 'output_fields': None, 'outfile': None}}


def run_shard(ctx):
    n = ctx.params['cases']
    for _ in range(ctx.params.get('long_null_runs', 2)):
        run_case(ctx, long_null_run_case(ctx.rng))
        ctx.rec.event('frames:long_null_run')
    if ctx.shard < ctx.params.get('big_columns', 8):
        import random
        c = big_column_case(ctx.rng)
        random.seed(c['prng'])             # (discovery samples with the global PRNG: part of the case)
        run_case(ctx, c)
        ctx.rec.event('frames:big_string_column')
    for i in range(n):
        run_case(ctx, gen_case(ctx.rng, i if ctx.shard % 4 == 0 else i + 4 * len(F.RECOGNISED)))
    flush(ctx.rec)

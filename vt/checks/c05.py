"""C05 — DataFrame comparison passes exactly when the checked structure and values agree.

Every case plants ONE known difference (or none) between a reference frame and an actual
frame and runs a comparison entry point under generated options; the oracle
(oracles/framecmp.py) says which planted differences must be reported and which must be
tolerated.  Monitors: assertion-function recorder (outcome + message), input-frame hashes
before/after (the comparison must not disturb caller data - recorded), exception recorder
(a failing comparison must surface as an assertion failure with a description, never as an
internal error), M-REACH on the comparison helpers.
"""
import collections
import contextlib
import copy
import io
import os

from vt import common
from vt.gens import frames as F
from vt.monitors import reach
from vt.oracles import framecmp

ID = 'C05'
TIERS = {
    'quick': dict(shards=16, cases=900, watchdog_s=900),
    'thorough': dict(shards=16, cases=25000, watchdog_s=7000),
}
KINDS = ['int64', 'int32', 'float64', 'float32', 'bool', 'str_obj', 'str_pd3', 'string_ext', 'cat', 'dt_ns', 'dt_us',
         'Int64', 'boolean', 'Float64', 'dateobj']
MUTS = ['copy', 'copy', 'copy', 'value', 'value', 'null_to_value', 'value_to_null', 'float_small', 'float_large', 'rename', 'retype',
        'move', 'drop', 'add_col', 'add_row', 'remove_row', 'swap_rows', 'retype_and_value', 'object_lookalike', 'retype_family']
ENTRIES = ['check_dataframe', 'check_dataframe', 'assertDataFramesEqual', 'assertDataFrameCorrect-parquet',
           'assertDataFrameCorrect-csv', 'assertOnDisk-parquet', 'assertOnDisk-csv', 'assertOnDiskList-parquet', 'assertOnDiskList-csv']
RULE = ('case = reference frame (unique int key + 1-4 columns over 15 dtypes incl. object/str/string/categorical strings, '
        'nullable extension types, datetimes; nulls anywhere) + ONE planted difference from {none, cell value, null<->value, '
        'float below/above the precision, rename, retype, move, drop, extra column, extra/missing row, swapped rows} x '
        'check_data/check_types/check_order/check_extra_cols as None/False/list/function x sortby x condition x precision '
        '0..10/None x type_matching x 7 entry points. Non-trivial = a difference was planted or an option restricts the check.')
ASSUMPTIONS = [
    'unspecified: default precision for differences below 1e-5 (docstring says no rounding, code rounds to 6); loosened type matching levels; a column missing from actual but excluded from the type check; partial order/extra-column selections; rows filtered by a condition',
    'in-memory-vs-file entry points are judged only when the written reference reads back (pandas) with the same dtypes and values as the reference frame',
    'float differences are planted on a decimal grid (0.4 or 2 units of the last compared place) so that rounding is unambiguous',
]
REQUIRED_MONITORS = ['inputs:wide_table', 'history:rows_and_columns_reordered', 'inputs:windows_of_one_parent', 'history:precision_then_default', 'inputs:relabelled_index', 'history:same_reference_reused', 'oracle:must-pass', 'oracle:must-fail', 'failure:message_checked', 'inputs:hashed'] + \
    ['entry:' + e for e in sorted(set(ENTRIES))] + ['reach:types_match', 'reach:single_col_diffs', 'reach:resolve_option_flag']
REQUIRED_CLASSES = ['mut=%s' % m for m in sorted(set(MUTS))] + ['mut=key_crosses_condition'] + ['kind=%s' % k for k in KINDS]

_counter = collections.Counter()
_rt = None
_outcomes = []


def setup():
    global _rt
    if _rt is None:
        from tdda.referencetest import checkpandas
        from tdda.referencetest.referencetest import ReferenceTest
        for k in ('types_match', 'single_col_diffs', 'resolve_option_flag', 'replace_cats', 'same_structure_dataframe_diffs'):
            reach.wrap_count(checkpandas, k, _counter)
        ReferenceTest.set_defaults(verbose=False, tmp_dir=os.environ.get('TMPDIR'))
        _rt = ReferenceTest(lambda ok, msg: _outcomes.append((bool(ok), msg)))
    return _rt


def float_col(rng, kind, n, p):
    vals = []
    for _ in range(n):
        v = round(rng.uniform(-500, 500), min(p, 4))
        vals.append(v)
    return vals


def gen_case(rng, i):
    n = rng.choice([2, 3, 4, 6, 12])
    p = rng.choice([None, 0, 1, 2, 3, 4, 6, 8, 10])
    ncols = rng.randint(1, 4)
    kinds = [KINDS[(i + j) % len(KINDS)] if j == 0 else rng.choice(KINDS) for j in range(ncols)]
    cols = [{'name': 'k', 'kind': 'int64', 'values': rng.sample(range(100), n), 'nulls': 'none'}]
    for j, kd in enumerate(kinds):
        c = F.gen_column(rng, kd, n, name='c%d' % j, nulls=rng.choice(['none', 'none', 'one', 'many']))
        if F.FAMILY[kd] == 'real':
            fv = float_col(rng, kd, n, 3 if p is None else p)
            c['values'] = [None if v is None else fv[t] for t, v in enumerate(c['values'])]
            if kd == 'float32':
                c['values'] = [None if v is None else float(int(v)) for v in c['values']]
        if F.FAMILY[kd] == 'string':
            c['values'] = [None if v is None else (v.replace('\r', ' ').replace('\n', ' ') or 'e') for v in c['values']]
        cols.append(c)
    base = {'cols': cols, 'nrows': n}
    mk = MUTS[i % len(MUTS)] if i < 3 * len(MUTS) else rng.choice(MUTS)
    act = copy.deepcopy(base)
    mut = {'kind': mk}
    data_cols = [c['name'] for c in cols[1:]]
    target = rng.choice(cols[1:])
    tname = target['name']
    tact = [c for c in act['cols'] if c['name'] == tname][0]
    fam = F.FAMILY[target['kind']]
    r = rng.randrange(n)

    def other_value(v):
        if fam == 'int':
            return (v or 0) + 1 if (v or 0) < 100 else (v or 0) - 1
        if fam == 'real':
            return (v or 0.0) + 7.0
        if fam == 'bool':
            return not v
        if fam == 'string':
            return 'mutated-%d' % rng.randrange(1000)
        if target['kind'] == 'dateobj':
            return '2031-05-06' if v != '2031-05-06' else '2031-05-07'
        return '2031-05-06T07:08:09' if v != '2031-05-06T07:08:09' else '2031-05-06T07:08:10'
    if mk == 'value':
        nn = [t for t in range(n) if target['values'][t] is not None]
        if not nn:
            mut = {'kind': 'copy'}
        else:
            r = rng.choice(nn)
            tact['values'][r] = other_value(target['values'][r])
            mut.update(col=tname, row=r)
    elif mk == 'null_to_value':
        nl = [t for t in range(n) if target['values'][t] is None]
        if not nl:
            mut = {'kind': 'copy'}
        else:
            r = rng.choice(nl)
            tact['values'][r] = other_value(None)
            mut.update(col=tname, row=r)
    elif mk == 'value_to_null':
        nn = [t for t in range(n) if target['values'][t] is not None]
        if not nn or target['kind'] in F.INT_KINDS or target['kind'] == 'bool':
            mut = {'kind': 'copy'}
        else:
            r = rng.choice(nn)
            tact['values'][r] = None
            mut.update(col=tname, row=r)
    elif mk in ('float_small', 'float_large'):
        fcols = [c for c in cols[1:] if c['kind'] in ('float64', 'Float64') and any(v is not None for v in c['values'])]
        if not fcols:
            mut = {'kind': 'copy'}
        else:
            target = rng.choice(fcols)
            tname = target['name']
            tact = [c for c in act['cols'] if c['name'] == tname][0]
            r = rng.choice([t for t in range(n) if target['values'][t] is not None])
            pp = 6 if p is None else p
            delta = (0.4 if mk == 'float_small' else 2.0) * 10 ** (-pp)
            if p is None and mk == 'float_large':
                delta = rng.choice([2e-6, 1e-3, 0.5])
            tact['values'][r] = target['values'][r] + delta
            mut.update(col=tname, row=r, delta=delta)
    elif mk == 'rename':
        tact['name'] = tname + '_renamed'
        mut.update(col=tname)
    elif mk == 'retype':
        new = {'int64': 'float64', 'int32': 'int64', 'float64': 'float32', 'float32': 'float64', 'bool': 'int64', 'str_obj': 'string_ext',
               'str_pd3': 'str_obj', 'string_ext': 'str_obj', 'cat': 'str_obj', 'dt_ns': 'dt_us', 'dt_us': 'dt_ns', 'Int64': 'int64',
               'boolean': 'bool', 'Float64': 'float64', 'dateobj': 'dt_us'}[target['kind']]
        if any(v is None for v in target['values']) and new in ('int64', 'bool'):
            mut = {'kind': 'copy'}
        else:
            if target['kind'] == 'float64' and new == 'float32':
                tact['values'] = [None if v is None else float(int(v)) for v in tact['values']]
                for c in base['cols']:
                    if c['name'] == tname:
                        c['values'] = list(tact['values'])
            if target['kind'] == 'bool' and new == 'int64':
                tact['values'] = [int(v) for v in tact['values']]
            if target['kind'] == 'dateobj':
                tact['values'] = [None if v is None else v + 'T00:00:00' for v in tact['values']]
            tact['kind'] = new
            mut.update(col=tname, to=new)
    elif mk == 'retype_and_value':
        # the actual column is of a WIDER type than the reference column (acceptable at the looser type-matching
        # levels, or when the column's type is not checked) and one of its values differs by an amount a narrowing
        # cast would hide: 2.5 against int 2, 2**32+2 against int32 2, 2 against True
        wide = [c for c in cols[1:] if c['kind'] in ('int64', 'int32', 'bool') and all(v is not None and abs(int(v)) < 2 ** 40 for v in c['values'])]
        if not wide:
            mut = {'kind': 'copy'}
        else:
            target = rng.choice(wide)
            tname = target['name']
            tact = [c for c in act['cols'] if c['name'] == tname][0]
            r = rng.randrange(n)
            v = target['values'][r]
            if target['kind'] == 'int64':
                tact['kind'] = 'float64'
                tact['values'] = [float(x) for x in tact['values']]
                tact['values'][r] = float(v) + 0.5
            elif target['kind'] == 'int32':
                tact['kind'] = 'int64'
                tact['values'][r] = v + 2 ** 32
            else:
                tact['kind'] = 'int64'
                tact['values'] = [int(x) for x in tact['values']]
                tact['values'][r] = 2 if v else -1
            mut.update(col=tname, row=r, to=tact['kind'], delta=abs(tact['values'][r] - (int(v) if isinstance(v, bool) else v)))
    elif mk == 'retype_family':
        # a NUMERIC actual column where the reference has a datetime or (non-object) text column: no matching level calls these
        # the same type - 'permissive' is about bool/int/float among themselves, 'medium' about object against what object may hold
        cand = [c for c in cols[1:] if c['kind'] in ('dt_ns', 'dt_us', 'string_ext', 'str_pd3')]
        if not cand:
            mut = {'kind': 'copy'}
        else:
            target = rng.choice(cand)
            tname = target['name']
            tact = [c for c in act['cols'] if c['name'] == tname][0]
            tact['kind'] = rng.choice(['int64', 'float64'])
            tact['values'] = [t if tact['kind'] == 'int64' else t + 0.5 for t in range(n)]
            tact['nulls'] = 'none'
            mut.update(col=tname, to=tact['kind'], frm=target['kind'])
    elif mk == 'object_lookalike':
        # same dtype (object), same text when printed, different VALUES: date objects against their ISO strings
        objs = [c for c in cols[1:] if c['kind'] == 'dateobj' and any(v is not None for v in c['values'])]
        if not objs:
            mut = {'kind': 'copy'}
        else:
            target = rng.choice(objs)
            tname = target['name']
            tact = [c for c in act['cols'] if c['name'] == tname][0]
            tact['kind'] = 'str_obj'
            r = rng.choice([t for t in range(n) if target['values'][t] is not None])
            mut = {'kind': 'object_lookalike', 'col': tname, 'row': r}
    elif mk == 'move':
        if len(act['cols']) < 3:
            mut = {'kind': 'copy'}
        else:
            a, b = rng.sample(range(len(act['cols'])), 2)
            act['cols'][a], act['cols'][b] = act['cols'][b], act['cols'][a]
            mut.update(cols=[act['cols'][a]['name'], act['cols'][b]['name']])
    elif mk == 'drop':
        act['cols'] = [c for c in act['cols'] if c['name'] != tname]
        mut.update(col=tname)
    elif mk == 'add_col':
        act['cols'].append({'name': 'extra', 'kind': 'int64', 'values': list(range(n)), 'nulls': 'none'})
        mut.update(col='extra')
    elif mk == 'add_row':
        for c in act['cols']:
            c['values'].append(c['values'][r] if c['name'] != 'k' else 100 + r)
        act['nrows'] = n + 1
    elif mk == 'remove_row':
        for c in act['cols']:
            del c['values'][r]
        act['nrows'] = n - 1
    elif mk == 'swap_rows':
        a, b = rng.sample(range(n), 2)
        differing = []
        for c in act['cols']:
            if c['values'][a] != c['values'][b]:
                differing.append(c['name'])
            c['values'][a], c['values'][b] = c['values'][b], c['values'][a]
        mut.update(rows=[a, b], differing_cols=differing)

    def optval(extra=()):
        k = rng.random()
        allc = ['k'] + data_cols
        if k < 0.45:
            return None
        if k < 0.6:
            return False
        sub = [c for c in allc if rng.random() < 0.6] or ['k']
        return sub if k < 0.85 else {'fn': sub}
    opts = {'check_data': optval(), 'check_types': optval(), 'check_order': optval(), 'precision': p,
            'type_matching': rng.choice([None, None, 'strict', 'medium', 'permissive']),
            'sortby': rng.choice([None, None, None, ['k']]), 'condition': rng.choice([None, None, None, {'k_lt': rng.randint(20, 90)}])}
    if mut['kind'] == 'retype_family' and rng.random() < 0.7:
        # the type check alone has to notice: the column's values are left out of the data check
        opts['check_data'] = rng.choice([False, [c for c in ['k'] + data_cols if c != mut['col']]])
        opts['type_matching'] = rng.choice(['medium', 'permissive', 'permissive'])
        if rng.random() < 0.5:
            opts['check_types'] = None
    entry = rng.choice(ENTRIES)
    if entry == 'check_dataframe' and rng.random() < 0.5:
        opts['check_extra_cols'] = rng.choice([None, False])
    if mut['kind'] in ('rename', 'drop') and rng.random() < 0.3:
        opts['sortby'] = [mut['col']]        # sorting requested on the column that is missing from actual
    if mut['kind'] == 'swap_rows':
        mut['sort_restores'] = opts['sortby'] == ['k']
    if mut['kind'] in ('add_row', 'remove_row') and rng.random() < 0.5 and not opts['condition']:
        opts['condition'] = {'k_lt': rng.randint(20, 90)}
    if mut['kind'] == 'copy' and i % 7 == 3:
        # a key that crosses the condition threshold on one side only: same raw length, different filtered length
        n_ = rng.randint(20, 90)
        ks = base['cols'][0]['values']
        below = [t for t in range(n) if ks[t] < n_]
        if below:
            r_ = rng.choice(below)
            act['cols'][0]['values'][r_] = ks[r_] + 1000
            mut = {'kind': 'key_crosses_condition', 'col': 'k', 'row': r_}
            opts['condition'] = {'k_lt': n_}
            opts['sortby'] = None
    if opts['condition'] and mut['kind'] in ('add_row', 'remove_row', 'key_crosses_condition'):
        n_ = opts['condition']['k_lt']
        kb = [v for v in base['cols'][0]['values'] if v < n_]
        ka = [v for v in act['cols'][0]['values'] if v < n_]
        mut['filtered_counts_equal'] = len(kb) == len(ka)
        if mut['kind'] != 'key_crosses_condition' and len(kb) == len(ka) and kb != ka:
            mut['filtered_counts_equal'] = None
    if 'row' in mut and opts['condition'] and mut['kind'] != 'key_crosses_condition':
        kv = base['cols'][0]['values'][mut['row']]
        mut['row_filtered_by_condition'] = not (kv < opts['condition']['k_lt'])
    case = {'base': base, 'actual': act, 'mut': mut, 'opts': opts, 'entry': entry}
    if entry.startswith('assertOnDiskList'):
        case['pos'] = rng.randrange(4)
    if not entry.startswith('assertOnDisk') and rng.random() < 0.35:
        # frames handed over in memory need not carry a default index (a filtered, re-sorted or relabelled frame):
        # values correspond by position, whatever the row labels are
        kinds = ['reversed', 'offset', 'shuffled', 'str', 'gaps']
        case['index'] = {'act': rng.choice(kinds), 'ref': rng.choice(kinds + [None]) if '-' not in entry else None,
                         'seed': rng.randrange(10 ** 6)}
    return case


def real_opts(o):
    r = {}
    for k, v in o.items():
        if k == 'condition':
            if v:
                n = v['k_lt']
                r[k] = (lambda df, n=n: df['k'] < n)
            continue
        if isinstance(v, dict) and 'first' in v:
            r[k] = (lambda df, m=v['first']: list(df)[:m])        # "the first m fields" of whatever frame it is handed
            continue
        if isinstance(v, dict) and 'fn' in v:
            cols = v['fn']
            r[k] = (lambda df, cols=cols: [c for c in cols if c in list(df)])
        elif v is not None or k in ('check_extra_cols',):
            r[k] = v
    return r


def fp(df):
    import pandas as pd
    try:
        return (list(df.columns), [str(t) for t in df.dtypes], int(pd.util.hash_pandas_object(df, index=True).sum()), list(df.index[:50]))
    except Exception:
        return (list(df.columns), [str(t) for t in df.dtypes], repr(df.head(50)))


def run_case(ctx, case):
    rec = ctx.rec
    r = setup()
    import pandas as pd
    base, act, mut, o, entry = case['base'], case['actual'], case['mut'], case['opts'], case['entry']
    allcols = [c['name'] for c in base['cols']]
    cls = [('mut=' + mut['kind'],), ('entry=' + entry,), ('precision=%s' % o['precision'],), ('tm=%s' % o['type_matching'],)] + \
          [('kind=' + c['kind'],) for c in base['cols'][1:]] + \
          [('%s=%s' % (k, 'none' if o[k] is None else 'false' if o[k] is False else 'fn' if isinstance(o[k], dict) else 'list'),)
           for k in ('check_data', 'check_types', 'check_order')]
    want, why = framecmp.verdict(mut, {k: v for k, v in o.items() if k != 'check_extra_cols' or 'check_extra_cols' in o}, allcols)
    ro = real_opts(o)
    del _outcomes[:]
    d = ctx.scratch
    err = io.StringIO()
    try:
        if case.get('shared_parent'):
            # both frames are row windows of ONE parent frame (a lagged comparison): they share memory, not values
            parent = F.build_frame(case['shared_parent'])
            ref_df, act_df = parent.iloc[:-1], parent.iloc[1:]
            rec.event('inputs:windows_of_one_parent')
        else:
            ref_df, act_df = F.build_frame(base), F.build_frame(act)
    except Exception as e:
        rec.note('harness could not build the frame (%s)' % type(e).__name__)
        return
    if case.get('index'):
        import random as _random
        for which, df in (('ref', ref_df), ('act', act_df)):
            k = case['index'].get(which)
            n = len(df)
            if k is None or n == 0:
                continue
            labels = {'reversed': list(range(n - 1, -1, -1)), 'offset': list(range(100, 100 + n)),
                      'gaps': list(range(0, 2 * n, 2)), 'str': ['r%d' % t for t in range(n)],
                      'shuffled': _random.Random(case['index']['seed']).sample(range(n), n)}[k]
            df.index = labels
        cls.append(('index=relabelled',))
        rec.event('inputs:relabelled_index')
    h_ref, h_act = fp(ref_df), fp(act_df)
    rec.event('inputs:hashed')
    pre_ok = True
    try:
        with contextlib.redirect_stderr(err), contextlib.redirect_stdout(err):
            if entry == 'check_dataframe':
                from tdda.referencetest.checkpandas import PandasComparison
                pc = PandasComparison(verbose=False, tmp_dir=os.environ.get('TMPDIR'))
                res = pc.check_dataframe(act_df, ref_df, **ro)
                _outcomes.append((res.failures == 0, res.diffs.message()))
            elif entry == 'assertDataFramesEqual':
                ro.pop('check_extra_cols', None)
                r.assertDataFramesEqual(act_df, ref_df, **ro)
            else:
                ext = entry.split('-')[1]
                refp = os.path.join(d, 'ref.' + ext)
                actp = os.path.join(d, 'act.' + ext)
                keep = case.get('keep_ref') and os.path.exists(refp)
                for p_ in (refp, actp):
                    if os.path.exists(p_) and not (keep and p_ == refp):
                        os.unlink(p_)
                ro.pop('check_extra_cols', None)
                tm = ro.pop('type_matching', None)
                try:
                    if ext == 'parquet':
                        if not keep:
                            ref_df.to_parquet(refp)
                        back = pd.read_parquet(refp)
                    else:
                        if not keep:
                            ref_df.to_csv(refp, index=False)
                        from tdda.referencetest.checkpandas import default_csv_loader
                        back = default_csv_loader(refp)
                    pre_ok = list(back.dtypes.astype(str)) == list(ref_df.dtypes.astype(str)) and back.equals(ref_df)
                    if entry.startswith('assertOnDisk'):
                        act_df.to_parquet(actp) if ext == 'parquet' else act_df.to_csv(actp, index=False)
                        a2 = pd.read_parquet(actp) if ext == 'parquet' else default_csv_loader(actp)
                        pre_ok = pre_ok and list(a2.dtypes.astype(str)) == list(act_df.dtypes.astype(str)) and a2.equals(act_df)
                except Exception as e:
                    rec.case(case, nontrivial=False, cls=cls)
                    rec.unspecified('pandas itself cannot serialise this frame (%s)' % type(e).__name__)
                    return
                if entry.startswith('assertDataFrameCorrect'):
                    if tm:
                        ro['type_matching'] = tm
                    r.assertDataFrameCorrect(act_df, refp, kind=ext, **ro)
                elif entry.startswith('assertOnDiskList'):
                    # the list form: this pair among pairs that agree (every option applies to every pair)
                    g1, g2 = os.path.join(d, 'good_a.' + ext), os.path.join(d, 'good_r.' + ext)
                    for p_ in (g1, g2):
                        ref_df.to_parquet(p_) if ext == 'parquet' else ref_df.to_csv(p_, index=False)
                    k_ = case.get('pos', 0) % 2
                    aps, rps = [g1, g1], [g2, g2]
                    aps[k_], rps[k_] = actp, refp
                    if ext == 'csv' and case.get('pos', 0) >= 2:
                        r.assertCSVFilesCorrect(aps, rps, **ro)
                    else:
                        r.assertOnDiskDataFramesCorrect(aps, rps, kind=ext, **ro)
                else:
                    r.assertOnDiskDataFrameCorrect(actp, refp, kind=ext, **ro)
    except Exception as e:
        m = common.short_tb(e)
        rec.case(case, cls=cls)
        if want == 'unspecified' and mut['kind'] in ('rename', 'drop'):
            rec.unspecified('exception: ' + why)
            return
        if not pre_ok:
            rec.unspecified('exception after the reference did not read back faithfully (pandas/CSV fidelity)')
            return
        rec.violation('internal_error', {'case': case, 'mech': {'exc': m['exc'], 'where': m['where'], 'mut': mut['kind'], 'oracle': want},
                                         'facts': dict(m, why=why, entry=entry)})
        return
    rec.event('entry:' + entry)
    if len(_outcomes) != 1:
        rec.violation('assert_fn_calls', {'case': case, 'mech': {'entry': entry}, 'facts': {'n': len(_outcomes)}})
        return
    ok, msg = _outcomes[0]
    got = 'pass' if ok else 'fail'
    if not pre_ok:
        want, why = 'unspecified', 'the written reference does not read back with the same dtypes/values (pandas/CSV fidelity)'
    rec.case(case, nontrivial=mut['kind'] != 'copy' or any(o[k] is not None for k in ('check_data', 'check_types', 'check_order', 'sortby', 'condition')),
             cls=cls + [('oracle=' + want,)])
    if h_ref != fp(ref_df) or h_act != fp(act_df):
        rec.note('comparison modified the caller\'s frames (sortby sorts in place)')
    if want == 'unspecified':
        rec.unspecified(why)
    else:
        rec.event('oracle:must-' + want)
        if want != got:
            kinds = sorted(set(c['kind'] for c in base['cols'] if c['name'] == mut.get('col'))) or None
            rec.violation('false_alarm' if want == 'pass' else 'missed_difference', {
                'case': case, 'mech': {'mut': mut['kind'], 'why': why, 'colkind': kinds, 'entry': entry.split('-')[0]},
                'facts': {'oracle': want, 'tdda': got, 'message': (msg or '')[:500], 'opts': common.jsafe(o), 'mut': mut}})
            return
    if not ok:
        rec.event('failure:message_checked')
        if not (msg or '').strip():
            rec.violation('failure_without_description', {'case': case, 'mech': {'mut': mut['kind'], 'entry': entry}, 'facts': {}})


def run_shard(ctx):
    import copy
    for i in range(ctx.params['cases']):
        case = gen_case(ctx.rng, i)
        run_case(ctx, case)
        if '-' in case['entry'] and i % 3 == 0:
            # history against ONE unchanged reference file: after whatever the first assertion did (sorting,
            # conditions, precision ...), a plain copy of the reference must still pass and, where the rows
            # are not already in key order, the key-sorted frame must still fail
            base = case['base']
            plain = {'check_data': None, 'check_types': None, 'check_order': None, 'precision': None, 'type_matching': None,
                     'sortby': None, 'condition': None}
            c2 = {'base': base, 'actual': copy.deepcopy(base), 'mut': {'kind': 'copy'}, 'opts': plain, 'entry': case['entry'],
                  'keep_ref': True, 'sequel': 'copy-after'}
            run_case(ctx, c2)
            ks = base['cols'][0]['values']
            order = sorted(range(len(ks)), key=lambda t: ks[t])
            if order != list(range(len(ks))):
                srt = copy.deepcopy(base)
                differing = []
                for c in srt['cols']:
                    new = [c['values'][t] for t in order]
                    if new != c['values']:
                        differing.append(c['name'])
                    c['values'] = new
                c3 = {'base': base, 'actual': srt, 'mut': {'kind': 'swap_rows', 'rows': order[:2], 'differing_cols': differing, 'sort_restores': False},
                      'opts': plain, 'entry': case['entry'], 'keep_ref': True, 'sequel': 'sorted-after'}
                run_case(ctx, c3)
            ctx.rec.event('history:same_reference_reused')
        if i % 10 == 7:
            # "rows 1..n against rows 0..n-1" of one parent frame, handed over as the two slices themselves
            rng = ctx.rng
            pspec = gen_case(rng, 0)['base']
            n1 = pspec['nrows']
            if n1 >= 3:
                b = {'cols': [dict(c, values=c['values'][:-1]) for c in pspec['cols']], 'nrows': n1 - 1}
                a = {'cols': [dict(c, values=c['values'][1:]) for c in pspec['cols']], 'nrows': n1 - 1}
                differing = [c['name'] for c in pspec['cols'] if c['values'][:-1] != c['values'][1:]]
                plain = {'check_data': None, 'check_types': None, 'check_order': None, 'type_matching': None, 'sortby': None,
                         'condition': None, 'precision': rng.choice([None, 2, 6])}
                if rng.random() < 0.4:
                    plain['check_data'] = [c['name'] for c in pspec['cols'][1:]]         # the key column left out
                run_case(ctx, {'base': b, 'actual': a, 'mut': {'kind': 'swap_rows', 'rows': [0, 1], 'differing_cols': differing, 'sort_restores': False},
                               'opts': plain, 'entry': rng.choice(['check_dataframe', 'assertDataFramesEqual']),
                               'shared_parent': pspec, 'sequel': 'windows-of-one-parent'})
        if i % 10 == 2:
            # the same records in another row order AND another column order, column order not checked, sorting requested as
            # "all fields" (True) or by a function of the frame: the documented sort keys are the REFERENCE's fields, in its order
            rng = ctx.rng
            pspec = gen_case(rng, 0)['base']
            n1 = pspec['nrows']
            if n1 >= 3 and len(pspec['cols']) >= 2:
                order = list(range(n1))
                rng.shuffle(order)
                acols = [dict(c, values=[c['values'][t] for t in order]) for c in pspec['cols']]
                acols = acols[1:] + acols[:1]                    # the unique key column 'k' goes last in the actual frame
                sb = rng.choice([True, {'first': 1}, {'first': 2}, ['k']])
                plain = {'check_data': None, 'check_types': None, 'check_order': False, 'type_matching': None, 'sortby': sb,
                         'condition': None, 'precision': None}
                run_case(ctx, {'base': pspec, 'actual': {'cols': acols, 'nrows': n1},
                               'mut': {'kind': 'swap_rows', 'rows': order[:2], 'differing_cols': [c['name'] for c in pspec['cols']], 'sort_restores': True},
                               'opts': plain, 'entry': rng.choice(['check_dataframe', 'assertDataFramesEqual']),
                               'sequel': 'rows-and-columns-reordered'})
                ctx.rec.event('history:rows_and_columns_reordered')
        if i % 10 == 4:
            # history on ONE comparison object: an assertion with an explicit coarse precision, then the same frames
            # with the precision left out - the second verdict must be the default-precision verdict
            rng = ctx.rng
            n = rng.choice([2, 3, 5])
            pc_ = rng.choice([0, 1, 2])
            vals = [float(rng.randint(-50, 50)) for _ in range(n)]
            base = {'cols': [{'name': 'k', 'kind': 'int64', 'values': list(range(n)), 'nulls': 'none'},
                             {'name': 'c0', 'kind': 'float64', 'values': vals, 'nulls': 'none'}], 'nrows': n}
            r_ = rng.randrange(n)
            delta = 0.4 * 10 ** (-pc_)
            act = copy.deepcopy(base)
            act['cols'][1]['values'][r_] = vals[r_] + delta
            plain = {'check_data': None, 'check_types': None, 'check_order': None, 'type_matching': None, 'sortby': None, 'condition': None}
            entry = rng.choice(['assertDataFramesEqual', 'assertDataFrameCorrect-parquet'])
            first = {'base': base, 'actual': act, 'mut': {'kind': 'float_small', 'col': 'c0', 'row': r_, 'delta': delta},
                     'opts': dict(plain, precision=pc_), 'entry': entry, 'sequel': 'coarse-precision-first'}
            second = {'base': base, 'actual': copy.deepcopy(act), 'mut': {'kind': 'float_large', 'col': 'c0', 'row': r_, 'delta': delta},
                      'opts': dict(plain, precision=None), 'entry': entry, 'sequel': 'then-default-precision'}
            run_case(ctx, first)
            run_case(ctx, second)
            ctx.rec.event('history:precision_then_default')
        if i % 50 == 9:
            # a wide table (around and beyond 128 and 256 columns) in which ONE record is off in many columns at once
            rng = ctx.rng
            w = rng.choice([127, 128, 129, 160, 255, 256, 257, 300])
            n = rng.choice([2, 3, 5])
            kd = rng.choice(['int64', 'float64'])
            cols = [{'name': 'k', 'kind': 'int64', 'values': list(range(n)), 'nulls': 'none'}]
            for j in range(w):
                vals = [rng.randint(-99, 99) for _ in range(n)]
                cols.append({'name': 'w%03d' % j, 'kind': kd, 'values': [float(v) for v in vals] if kd == 'float64' else vals, 'nulls': 'none'})
            base = {'cols': cols, 'nrows': n}
            act = copy.deepcopy(base)
            r_ = rng.randrange(n)
            k_ = min(w, rng.choice([w, w, 128, 129, 255, 256]))
            changed = sorted(rng.sample(range(1, w + 1), k_))
            for j in changed:
                act['cols'][j]['values'][r_] += 1
            plain = {'check_data': None, 'check_types': None, 'check_order': None, 'type_matching': None, 'sortby': None,
                     'condition': None, 'precision': rng.choice([None, 0, 6])}
            run_case(ctx, {'base': base, 'actual': act, 'mut': {'kind': 'value', 'col': cols[changed[0]]['name'], 'row': r_, 'n_columns_changed': k_},
                           'opts': plain, 'entry': rng.choice(['check_dataframe', 'assertDataFramesEqual', 'assertDataFrameCorrect-parquet', 'assertOnDisk-parquet']),
                           'sequel': 'wide-table-one-record-off'})
            ctx.rec.event('inputs:wide_table')
    for k, v in _counter.items():
        ctx.rec.event('reach:' + k, v)
    _counter.clear()

"""C03 — every example string is matched by one of the expressions rexpy returns.

Deciding monitors: (a) icontract post-condition on the real Extractor.extract
(re-matches the extractor's own cleaned example list against the final, dialect-
converted expressions), (b) a harness-side oracle that recomputes the surviving
examples from the *raw input* and re-matches with Python's re.  Root-cause contract on
escaped_bracket attributes bracket-escaping failures to their origin.
"""
import collections
import random as _random

from vt import common
from vt.gens import rexcases as RC
from vt.monitors import contracts, reach
from vt.oracles import rexmatch as O

ID = 'C03'
TIERS = {
    'quick': dict(shards=16, cases=2000, watchdog_s=900),
    'thorough': dict(shards=16, cases=80000, big=2, watchdog_s=6000),
}
RULE = ('cases = (multiset of 1-60 hostile unicode strings over a 1-8 symbol alphabet, input form '
        'list/dict/Series/list-of-Series, option set, dialect, Size setting, seed); directed fill of '
        'dialect x form x sampling first, then random. Non-trivial = at least two distinct surviving '
        'examples; distinct = fingerprint of the whole case description.')
ASSUMPTIONS = [
    "'matched in full' = re.match of the ^...$ expression under re.UNICODE|re.DOTALL (Python's reading of the anchors, the one tdda's verifier uses)",
    'coverage is not demanded when max_patterns/min_strings_per_pattern prune (exercised in C13/C18)',
    'strip=True: the stripped text must match (str.strip()); whether the unstripped original also matches is only recorded',
]
REQUIRED_MONITORS = ['contract:Extractor.extract', 'oracle:covers', 'contract:escaped_bracket',
                     'reach:batch_extract', 'reach:random.sample']
REQUIRED_CLASSES = ['dialect=perl', 'dialect=portable', 'dialect=grep', 'form=list', 'form=dict',
                    'form=series', 'form=serieslist', 'form=catseries', 'sampling=effective']

_counter = collections.Counter()
_installed = False


def install(rec):
    global _installed
    if _installed:
        return
    _installed = True
    from tdda.rexpy import rexpy
    contracts.attach('rexpy')
    reach.wrap_count(rexpy.Extractor, 'batch_extract', _counter, 'batch_extract')
    reach.wrap_count(rexpy.Extractor, 'convert_rex_to_dialect', _counter, 'convert_rex_to_dialect')
    orig = _random.sample

    def sample(*a, **k):
        _counter['random.sample'] += 1
        return orig(*a, **k)
    _random.sample = sample


def flush(rec):
    for k, v in _counter.items():
        rec.event('reach:' + k, v)
    _counter.clear()
    for k, v in contracts.EVALS.items():
        rec.event('contract:' + k, v)
    contracts.EVALS.clear()


def classify_contract(b):
    """mechanism key for a broken contract record (used by findings classifiers)."""
    f = b['facts']
    if b['contract'] == 'escaped_bracket':
        return {'contract': 'escaped_bracket', 'chars_has': ''.join(c for c in '^-]\\' if c in f.get('chars', ''))}
    return {'contract': b['contract'], 'dialect': f.get('dialect'), 'sampled': f.get('sampled')}


def unmatched_profile(un):
    """Which hostile character classes occur in the unmatched examples."""
    from vt.gens import strings as S
    prof = set()
    for s in un:
        for c in s:
            prof.add(S.char_class(c))
    return sorted(prof)


def run_case(ctx, case):
    rec = ctx.rec
    install(rec)
    contracts.RAISE = False
    kw = case['kw']
    targets = O.targets_of(case['xs'], kw['strip'], kw['remove_empties'])
    eff = RC.effective_sampling(case)
    cls = [('dialect=' + kw['dialect'],), ('form=' + case['form'],),
           ('sampling=' + ('effective' if eff else 'sized' if isinstance(case['size'], dict) else 'none'),),
           ('opts', 'tag=%d' % kw['tag'], 'strip=%d' % kw['strip'], 'rme=%d' % kw['remove_empties'],
            'vlf=%d' % kw['variableLengthFrags'], 'xl=%s' % kw['extra_letters'])]
    for p in case.get('pools', []):
        cls.append(('pool=' + p,))
    rec.case(case, nontrivial=len(set(targets)) >= 2, cls=cls)
    before = _counter['random.sample']
    try:
        x = RC.run_extractor(case)
    except Exception as e:
        contracts.drain()
        m = common.short_tb(e)
        rec.violation('raises', {'case': case, 'mech': {'exc': m['exc'], 'where': m['where']}, 'facts': m})
        return
    rex = RC.rex_of(x)
    broken = contracts.drain()
    comp, err = O.compile_all(rex)
    rec.event('oracle:covers')
    if comp is None:
        rec.violation('uncompilable', {'case': case, 'mech': {'dialect': kw['dialect']},
                                       'facts': {'rex': err[0], 'error': err[1]}})
        return
    un = O.unmatched(targets, comp)
    if not un:
        # "matched in full": an example ending in a line feed is not matched by an expression that only gets there
        # through `$` tolerating one final line feed
        nl = O.only_by_dollar_newline(targets, comp)
        if nl:
            rec.violation('not_matched_in_full', {
                'case': case, 'mech': {'dialect': kw['dialect'], 'sampling': eff, 'ends_in_newline': all(t.endswith('\n') for t in nl)},
                'facts': {'examples': nl[:5], 'rex': rex[:8]}})
            return
    roots = [b for b in broken if b['contract'] == 'escaped_bracket']
    if un:
        rec.violation('unmatched', {
            'case': case,
            'mech': {'dialect': kw['dialect'], 'sampling': eff,
                     'root': classify_contract(roots[0]) if roots else None,
                     'chars': unmatched_profile(un)},
            'facts': {'unmatched': un[:5], 'n_unmatched': len(un), 'rex': rex[:8],
                      'sample_calls': _counter['random.sample'] - before,
                      'contracts': [b['contract'] for b in broken]}})
    else:
        for b in broken:
            # the contract saw something the harness oracle did not: still a refutation
            rec.violation('contract:' + b['contract'], {'case': case, 'mech': classify_contract(b), 'facts': b['facts']})
        if O.only_by_dollar_newline(targets, comp):
            rec.note('matched only through $ tolerating a final newline')
        if kw['strip']:
            raw = [t for t in case['xs'] if t is not None and t.strip() != t]
            if raw and O.unmatched(raw, comp):
                rec.note('strip=True: unstripped original not matched (stripped text is)')


def big_case(rng, n):
    """>4000 distinct strings so the *default* sizes reach the sampling machinery."""
    xs = set()
    if rng.random() < 0.4:
        # regular ids and a couple of values of other shapes (the empty string among them) that the sample may leave out
        xs = set('id%05d' % k for k in range(n)) | set(rng.choice([[''], ['', 'x-1'], ['zz 9', '']]))
    while len(xs) < n:
        k = rng.random()
        if k < 0.5:
            xs.add('%s-%d' % (rng.choice(['ab', 'AB', 'x', 'Zq']), rng.randrange(10 ** rng.randint(1, 6))))
        elif k < 0.8:
            xs.add('%d.%d.%d' % (rng.randrange(300), rng.randrange(300), rng.randrange(300)))
        else:
            xs.add(''.join(rng.choice('ab01-_ ^') for _ in range(rng.randint(1, 9))))
    return {'xs': sorted(xs), 'form': 'list', 'kw': dict(tag=False, strip=False, remove_empties=False,
            extra_letters=None, variableLengthFrags=False, dialect=rng.choice(RC.DIALECTS)),
            'size': None, 'seed': rng.choice([None, 7]), 'pools': ['big'], 'prng': rng.randrange(2 ** 31)}


def run_shard(ctx):
    n = ctx.params['cases']
    for i in range(n):
        j = i if ctx.shard == 0 else None
        case = RC.gen_case(ctx.rng, j)
        run_case(ctx, case)
    for _ in range(ctx.params.get('big', 0)):
        run_case(ctx, big_case(ctx.rng, ctx.rng.choice([4200, 6000])))
    flush(ctx.rec)

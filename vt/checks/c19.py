"""C19 — tagged runs execute exactly the tagged tests; listing runs none.

Generated test modules (classes/tests/tags/inheritance, every body appends its id and pid to a
side-effect log) are run as real processes through M-FORK with generated argv spellings; the
log is the event history, M-FORK gives the true exit status and the listing output.  A sample
of runs is repeated as genuine `python module.py ...` subprocesses and must agree.
"""
import os
import re

from vt import common
from vt.monitors import forkserver
from vt.oracles import tagselect

ID = 'C19'
TIERS = {
    'quick': dict(shards=16, modules=30, argvs=40, pytest_runs=100, sessions=60, real_every=100, watchdog_s=900),
    'thorough': dict(shards=16, modules=200, argvs=80, pytest_runs=2500, sessions=2500, real_every=1000, watchdog_s=5000),
}
RULE = ('case = generated module (1-5 classes: ReferenceTestCase subclasses, a plain unittest.TestCase, subclasses of '
        'tagged/untagged classes; 0-4 tests each, tags on methods and/or classes, optional failing test) x argv spelling '
        '(-1 / --tagged / -0 / --istagged / none, alone, clustered with or placed before/after -v -q -f -b, with -W / '
        '--write-all / -w kind last, with class names). One real process per case. Non-trivial = module with both tagged '
        'and untagged tests and a tdda or unittest option present.')
ASSUMPTIONS = [
    'a test is tagged when its function object or its class (by normal attribute inheritance) carries the tag',
    'unspecified: a single-dash tdda flag placed after a positional class name; the exit status of a listing run; naming individual methods',
    'test order is unittest\'s (classes and methods sorted by name), which -f (failfast) relies on',
]
REQUIRED_MONITORS = ['runs:forked', 'modules:with_load_tests_hook', 'listing:hook_module_ran_nothing', 'runs:pytest_driven', 'session:run_compared', 'runs:real_crosscheck', 'log:bodies_observed', 'listing:checked', 'verbose:checked',
                     'failfast:checked']
REQUIRED_CLASSES = ['mode=all', 'mode=tagged', 'mode=list', 'spelling=-1', 'spelling=--tagged', 'spelling=-0',
                    'spelling=--istagged', 'spelling=both-glued', 'spelling=both-separate', 'spelling=both-long', 'spelling=both-mixed', 'cluster=1', 'classes_named=1', 'k_option=1', 'write_flag=1', 'inheritance=1']

HEADER = '''import os, sys, unittest
from tdda.referencetest import ReferenceTestCase, tag
LOG = os.environ['VT_LOG']
def hit(self, name):
    with open(LOG, 'a') as f:
        f.write('%s.%s %d\\n' % (type(self).__name__, name, os.getpid()))
'''


# the documented ways of ending a test module
ENDINGS = {'class': 'ReferenceTestCase.main()',
           'function': 'from tdda.referencetest.referencetestcase import main\n    main()'}


def module_source(classes, ending='class', load_tests=False):
    s = [HEADER]
    for c in classes:
        if c['tagged']:
            s.append('@tag')
        s.append('class %s(%s):' % (c['name'], c['base']))
        if not c['tests']:
            s.append('    pass')
        for t in c['tests']:
            if t['tagged']:
                s.append('    @tag')
            s.append('    def %s(self):' % t['name'])
            s.append('        hit(self, %r)' % t['name'])
            if t['fails']:
                s.append('        self.fail("deliberate")')
        s.append('')
    if load_tests:
        # unittest's load_tests protocol: the module builds its own suite, instance by instance, in unittest's usual order
        model = tagselect.resolve(classes)
        s.append('def load_tests(loader, standard_tests, pattern):')
        s.append('    suite = unittest.TestSuite()')
        for n in sorted(model):
            for m in sorted(model[n]['tests']):
                s.append('    suite.addTest(%s(%r))' % (n, m))
        s.append('    return suite')
        s.append('')
    s.append("if __name__ == '__main__':\n    %s\n" % ENDINGS[ending])
    return '\n'.join(s)


def gen_module(rng):
    classes = []
    n = rng.randint(1, 5)
    names = ['TestA', 'TestB', 'TestC', 'TestD', 'TestE']
    one_fail = rng.random() < 0.35
    for i in range(n):
        r = rng.random()
        if i and r < 0.3:
            base = rng.choice(classes)['name']
        elif r < 0.4:
            base = 'unittest.TestCase'
        else:
            base = 'ReferenceTestCase'
        tests = []
        for j in range(rng.randint(0, 4)):
            tests.append({'name': 'test_%s' % 'abcdefgh'[rng.randrange(8)], 'tagged': rng.random() < 0.4, 'fails': False})
        seen = set()
        tests = [t for t in tests if not (t['name'] in seen or seen.add(t['name']))]
        classes.append({'name': names[i], 'base': base, 'tagged': rng.random() < 0.25, 'tests': tests})
    alltests = [t for c in classes for t in c['tests']]
    if one_fail and alltests:
        rng.choice(alltests)['fails'] = True
    return classes


def gen_argv(rng, classes, i):
    modes = [('all', None), ('tagged', '-1'), ('tagged', '--tagged'), ('list', '-0'), ('list', '--istagged'),
             ('list', 'both-glued'), ('list', 'both-separate'), ('list', 'both-long'), ('list', 'both-mixed')]
    mode, flag = modes[i % 9]
    both = None
    if flag and flag.startswith('both'):
        # tagged and list-tagged together: listing wins (no test may run)
        both = flag
        flag = None
    uflags = [f for f in ('-v', '-q', '-f', '-b') if rng.random() < 0.3]
    if '-v' in uflags and '-q' in uflags:
        uflags.remove('-q')
    named = []
    if rng.random() < 0.3:
        named = sorted(rng.sample([c['name'] for c in classes], rng.randint(1, len(classes))))
    kpats = []
    if rng.random() < 0.2:
        # unittest's -k: keeps its usual meaning next to the tdda options
        pool = ['test_a', 'test_b', '_c', 'TestA', 'TestB.test_', 'estC', '*A.test_*', 'no_such_thing', 'test_', '*.test_d']
        kpats = rng.sample(pool, rng.choice([1, 1, 2]))
    write = rng.choice([None, None, None, ['-W'], ['--write-all'], ['-w', 'kindx'], ['--write', 'kindx,kindy']])
    cluster = False
    args = []
    dash = list(uflags)
    if flag in ('-1', '-0'):
        if dash and rng.random() < 0.4:
            # cluster with one unittest flag: -1v or -v1
            u = dash.pop(rng.randrange(len(dash)))
            args.append('-' + (flag[1] + u[1] if rng.random() < 0.5 else u[1] + flag[1]))
            cluster = True
        else:
            dash.insert(rng.randrange(len(dash) + 1), flag)
    if both == 'both-glued':
        letters = ['1', '0'] + ([dash.pop(rng.randrange(len(dash)))[1]] if dash and rng.random() < 0.4 else [])
        rng.shuffle(letters)
        args.append('-' + ''.join(letters))
        cluster = True
    elif both == 'both-separate':
        for f in rng.sample(['-1', '-0'], 2):
            dash.insert(rng.randrange(len(dash) + 1), f)
    if write and write[0] == '-W':
        dash.insert(rng.randrange(len(dash) + 1), '-W')
        write = 'W'
    args += dash
    ktail = []
    for kp in kpats:
        if rng.random() < 0.5:
            args.insert(rng.randrange(len(args) + 1), '-k' + kp)     # glued form: anywhere among the single-dash options
        else:
            ktail += ['-k', kp]         # two parameters: the pattern is a word without a dash, and tdda's single-dash
                                        # flags are only promised to work before the first such word (appended below)
    longs = []
    if flag in ('--tagged', '--istagged'):
        longs.append(flag)
    if both == 'both-long':
        longs += ['--tagged', '--istagged']
    if both == 'both-mixed':
        short, long_ = rng.choice([('-0', '--tagged'), ('-1', '--istagged')])
        args.insert(rng.randrange(len(args) + 1), short)
        longs.append(long_)
    if write and write != 'W' and write[0] == '--write-all':
        longs.append('--write-all')
    if rng.random() < 0.15:
        longs.append(rng.choice(['-wquiet', '--wquiet']))       # the documented companion of the write flags: says nothing about selection
    rng.shuffle(longs)
    args += ktail
    # long tdda options may sit before or after the class names
    if rng.random() < 0.5:
        args = args + longs + named
    else:
        args = args + named + longs
    if write and write != 'W' and write[0] in ('-w', '--write'):
        args += write                     # consumes the rest of the line by documentation: always last
    return {'argv': args, 'k': bool(kpats),
            'argv_model': {'mode': mode, 'classes': named, 'k': kpats, 'failfast': '-f' in uflags or any('f' in a for a in args if re.match(r'^-[01vqfb]+$', a)),
                           'verbose': '-v' in uflags or any('v' in a for a in args if re.match(r'^-[01vqfb]+$', a)),
                           'quiet': '-q' in uflags or any('q' in a for a in args if re.match(r'^-[01vqfb]+$', a))},
            'spelling': flag or both, 'cluster': cluster, 'write': bool(write)}


def run_case(ctx, case, real=False):
    if case.get('via') == 'pytest':
        return run_pytest_case(ctx, case)
    if case.get('via') == 'session':
        return run_session(ctx, case)
    rec = ctx.rec
    d = os.path.join(ctx.scratch, 'c19')
    os.makedirs(d, exist_ok=True)
    path = os.path.join(d, 'mod_under_test.py')
    with open(path, 'w') as f:
        f.write(module_source(case['classes'], case.get('ending', 'class'), load_tests=bool(case.get('load_tests'))))
    if case.get('load_tests'):
        rec.event('modules:with_load_tests_hook')
    log = os.path.join(d, 'hits.log')
    if os.path.exists(log):
        os.unlink(log)
    am = case['argv_model']
    exp = tagselect.expected(case)
    inherit = any(c['base'] not in ('ReferenceTestCase', 'unittest.TestCase') for c in case['classes'])
    model = tagselect.resolve(case['classes'])
    flat = [(n, m, model[n]['class_tagged'] or t['tagged']) for n in model for m, t in model[n]['tests'].items()]
    mixed = any(x[2] for x in flat) and any(not x[2] for x in flat)
    rec.case(case, nontrivial=mixed and (am['mode'] != 'all' or bool(case['argv'])),
             cls=[('mode=' + am['mode'],), ('spelling=%s' % case['spelling'],), ('cluster=%d' % case['cluster'],),
                  ('classes_named=%d' % bool(am['classes']),), ('k_option=%d' % bool(am.get('k')),), ('write_flag=%d' % case['write'],), ('inheritance=%d' % inherit,),
                  ('uflags=' + ''.join(sorted(a for a in case['argv'] if a in ('-v', '-q', '-f', '-b'))),)])
    env = {'VT_LOG': log, 'TDDA_FAIL_DIR': d}
    if real:
        res = forkserver.real_run([path] + case['argv'], cwd=d, env=env)
    else:
        res = forkserver.fork_run(path, [path] + case['argv'], cwd=d, env=env, scratch=ctx.scratch)
        rec.event('runs:forked')
    if res.timed_out:
        rec.unspecified('watchdog: run did not finish')
        return None
    hits = []
    if os.path.exists(log):
        hits = [l.split()[0] for l in open(log).read().splitlines() if l.strip()]
    rec.event('log:bodies_observed', len(hits))
    obs = {'executed': hits, 'status': res.status, 'stdout': res.out, 'stderr': res.err}
    if real:
        return obs
    mech = {'mode': am['mode'], 'spelling': case['spelling'], 'cluster': case['cluster'], **({'load_tests_hook': True} if case.get('load_tests') else {}),
            'unittest_flags_before': bool(case['argv']) and case['argv'][0] in ('-v', '-q', '-f', '-b') and case['spelling'] in ('-1', '-0')}
    facts = {'argv': case['argv'], 'executed': hits[:12], 'expected': exp['executed'][:12], 'status': res.status,
             'stderr_tail': res.err[-400:], 'stdout': res.out[-300:]}
    hook_in_charge = bool(case.get('load_tests')) and not am['classes']
    if hook_in_charge and am['mode'] == 'tagged':
        # the module's own load_tests built every instance by hand: which of them run is the hook's decision, not the loader's
        # (unittest's -k is bypassed the same way); tdda documents nothing for this - see DESIGN section 4
        rec.unspecified('load_tests hook builds its own instances: tag selection is out of the loader\'s hands')
        return obs
    if sorted(hits) != sorted(exp['executed']):
        rec.violation('wrong_tests_executed', {'case': case, 'mech': dict(mech, none_ran=not hits, status=res.status), 'facts': facts})
        return obs
    if hits != exp['executed'] and am['failfast']:
        rec.violation('wrong_order_under_failfast', {'case': case, 'mech': mech, 'facts': facts})
    if exp['status'] is not None and res.status != exp['status']:
        rec.violation('exit_status', {'case': case, 'mech': dict(mech, status=res.status, want=exp['status']), 'facts': facts})
    if am['mode'] == 'list':
        rec.event('listing:checked')
        named = set(l.strip().split('.')[-1] for l in res.out.splitlines() if l.strip() and re.match(r'^[\w.]+$', l.strip()))
        if hook_in_charge:
            rec.event('listing:hook_module_ran_nothing')      # (which classes a hand-built suite makes the listing name is not judged)
        elif named != exp['listing']:
            rec.violation('listing_names', {'case': case, 'mech': mech, 'facts': dict(facts, listed=sorted(named), want=sorted(exp['listing']))})
    else:
        per_test = len(re.findall(r' \.\.\. (?:ok|FAIL|ERROR)', res.err))
        if am['verbose']:
            rec.event('verbose:checked')
            if per_test != len(exp['executed']):
                rec.violation('verbose_flag_lost', {'case': case, 'mech': mech, 'facts': dict(facts, per_test_lines=per_test)})
        elif per_test:
            rec.violation('verbose_without_flag', {'case': case, 'mech': mech, 'facts': facts})
        if am['failfast'] and any(t['fails'] for c in case['classes'] for t in c['tests']):
            rec.event('failfast:checked')
    return obs


# ------------------------------------------------------------------------------------------------------------
# the same property through pytest (tdda's collection filter): function-style tests, plain classes and
# ReferenceTestCase classes in one module, run with --tagged / --istagged / neither / both

PT_HEADER = '''import os
from tdda.referencetest import ReferenceTestCase, tag
LOG = os.environ['VT_LOG']
def hit(who, name):
    with open(LOG, 'a') as f:
        f.write('%s%s.%s %d\\n' % (MODTAG, who, name, os.getpid()))
'''


def pytest_main():
    import sys
    import pytest
    return int(pytest.main(sys.argv[1:]))


def gen_pytest_module(rng):
    """Items in definition (= collection) order."""
    items = []
    nf = nc = 0
    for _ in range(rng.randint(2, 8)):
        if rng.random() < 0.55:
            items.append({'what': 'func', 'name': 'test_f%d' % nf, 'tagged': rng.random() < 0.4})
            nf += 1
        else:
            prev = [x for x in items if x['what'] == 'class']
            base = rng.choice(['object', 'object', 'ReferenceTestCase'])
            if prev and rng.random() < 0.25:
                base = rng.choice(prev)['name']
            tests = [{'name': 'test_%s' % 'abcdef'[j], 'tagged': rng.random() < 0.4} for j in sorted(rng.sample(range(6), rng.randint(0, 3)))]
            items.append({'what': 'class', 'name': 'TestK%d' % nc, 'base': base, 'tagged': rng.random() < 0.25, 'tests': tests})
            nc += 1
    return items


def pytest_module_source(items, modtag=''):
    s = [PT_HEADER, 'MODTAG = %r' % modtag]
    for it in items:
        if it['tagged']:
            s.append('@tag')
        if it['what'] == 'func':
            s.append('def %s():\n    hit("func", %r)\n' % (it['name'], it['name']))
        else:
            s.append('class %s(%s):' % (it['name'], it['base']))
            if not it['tests']:
                s.append('    pass')
            for t in it['tests']:
                if t['tagged']:
                    s.append('    @tag')
                s.append('    def %s(self):\n        hit(type(self).__name__, %r)' % (t['name'], t['name']))
            s.append('')
    return '\n'.join(s)


def pytest_expected(items, mode):
    """(executed ids, listed names) by the documented rule: a test is tagged when it, or its class (by normal
    attribute inheritance), carries the tag."""
    classes = {}
    every, tagged, listed = [], [], set()
    for it in items:
        if it['what'] == 'func':
            every.append('func.' + it['name'])
            if it['tagged']:
                tagged.append('func.' + it['name'])
                listed.add(it['name'])
            continue
        base = classes.get(it['base'])
        tests = dict(base['tests']) if base else {}
        for t in it['tests']:
            tests[t['name']] = t['tagged']
        ctag = it['tagged'] or bool(base and base['tagged'])
        classes[it['name']] = {'tests': tests, 'tagged': ctag}
        for name, tg in tests.items():
            every.append('%s.%s' % (it['name'], name))
            if ctag or tg:
                tagged.append('%s.%s' % (it['name'], name))
                listed.add(it['name'])
    if mode == 'all':
        return every, None
    if mode == 'tagged':
        return tagged, None
    return [], listed


def run_pytest_case(ctx, case):
    rec = ctx.rec
    d = os.path.join(ctx.scratch, 'c19pt')
    os.makedirs(d, exist_ok=True)
    with open(os.path.join(d, 'conftest.py'), 'w') as f:
        f.write('from tdda.referencetest.pytestconfig import *   # the documented boilerplate\n')
    path = os.path.join(d, 'test_ptmod.py')
    with open(path, 'w') as f:
        f.write(pytest_module_source(case['items']))
    path2 = os.path.join(d, 'test_ptmod2.py')
    if case.get('items2'):
        # a second module in the same session, with classes of the SAME names
        with open(path2, 'w') as f:
            f.write(pytest_module_source(case['items2'], 'm2:'))
    elif os.path.exists(path2):
        os.unlink(path2)
    log = os.path.join(d, 'hits.log')
    if os.path.exists(log):
        os.unlink(log)
    mode = case['mode']
    want, listed = pytest_expected(case['items'], mode)
    listed = None if listed is None else set(('test_ptmod', x) for x in listed)
    if case.get('items2'):
        w2, l2 = pytest_expected(case['items2'], mode)
        want = want + ['m2:' + x for x in w2]
        if listed is not None:
            listed |= set(('test_ptmod2', x) for x in l2)
    every, _ = pytest_expected(case['items'], 'all')
    tg, _ = pytest_expected(case['items'], 'tagged')
    kinds = sorted(set(it['what'] if it['what'] == 'func' else ('rtc-class' if it['base'] == 'ReferenceTestCase' else 'class') for it in case['items']))
    rec.case(case, nontrivial=bool(tg) and len(tg) < len(every) and mode != 'all',
             cls=[('mode=' + mode,), ('spelling=pytest ' + ' '.join(a for a in case['argv'] if a in ('--tagged', '--istagged')),),
                  ('pytest_items=' + '+'.join(kinds),)])
    forkserver.warm(extra=('pytest', '_pytest.config', '_pytest.main', '_pytest.python', 'tdda.referencetest.pytestconfig'))
    env = {'VT_LOG': log, 'TDDA_FAIL_DIR': d, 'PYTEST_DISABLE_PLUGIN_AUTOLOAD': '1'}
    res = forkserver.fork_run(pytest_main, ['pytest', '-p', 'no:cacheprovider'] + case['argv_pre'] + [path] + ([path2] if case.get('items2') else []) + case['argv'],
                              cwd=d, env=env, scratch=ctx.scratch)
    rec.event('runs:pytest_driven')
    if res.timed_out:
        rec.unspecified('watchdog: run did not finish')
        return
    hits = [l.split()[0] for l in open(log).read().splitlines() if l.strip()] if os.path.exists(log) else []
    rec.event('log:bodies_observed', len(hits))
    mech = {'via': 'pytest', 'mode': mode, 'items': kinds}
    facts = {'argv': case['argv_pre'] + ['<module>'] + case['argv'], 'executed': hits[:14], 'expected': want[:14], 'status': res.status,
             'stdout_tail': res.out[-500:], 'stderr_tail': res.err[-300:]}
    if sorted(hits) != sorted(want):
        extra = sorted(set(hits) - set(want))
        rec.violation('wrong_tests_executed', {'case': case, 'mech': dict(mech, extra_kind=sorted(set(x.split('.')[0] == 'func' and 'func' or 'method' for x in extra)),
                                                                      missing=bool(set(want) - set(hits)), repeated=len(hits) != len(set(hits))),
                                               'facts': facts})
        return
    if mode == 'list':
        rec.event('listing:checked')
        named = set((m.group(1), m.group(2)) for m in re.finditer(r'^(test_ptmod2?)\.(\w+)\s*$', res.out, re.M))
        if named != listed:
            rec.violation('listing_names', {'case': case, 'mech': mech, 'facts': dict(facts, listed=sorted(named), want=sorted(listed))})


def gen_pytest_case(rng, i):
    mode, flags = [('all', []), ('tagged', ['--tagged']), ('list', ['--istagged']), ('list', ['--tagged', '--istagged']),
                   ('tagged', ['--tagged'])][i % 5]
    flags = list(flags)
    rng.shuffle(flags)
    other = [f for f in ('-v', '-q', '-x') if rng.random() < 0.3]
    if '-v' in other and '-q' in other:
        other.remove('-v')
    pre, post = [], []
    for f in other + flags + ['-s']:
        (pre if rng.random() < 0.5 else post).append(f)
    case = {'items': gen_pytest_module(rng), 'mode': mode, 'argv_pre': pre, 'argv': post, 'via': 'pytest'}
    if rng.random() < 0.4:
        case['items2'] = gen_pytest_module(rng)
    return case


# ------------------------------------------------------------------------------------------------------------
# several runs of one module inside ONE process (ReferenceTestCase.main(module=..., argv=..., exit=False) called
# repeatedly): what a run executes and lists must not depend on the runs before it

def session_child(path, log, argvs):
    import importlib.util
    import sys
    spec = importlib.util.spec_from_file_location('mod_under_test', path)
    mod = importlib.util.module_from_spec(spec)
    sys.modules['mod_under_test'] = mod
    spec.loader.exec_module(mod)
    from tdda.referencetest import ReferenceTestCase
    for k, av in enumerate(argvs):
        with open(log, 'a') as f:
            f.write('==run %d\n' % k)
        print('\x1e%d\x1e' % k)
        sys.stdout.flush()
        try:
            ReferenceTestCase.main(module=mod, argv=['mod_under_test.py'] + list(av), exit=False)
        except SystemExit:
            pass
        sys.stdout.flush()
        sys.stderr.flush()
    return 0


def run_session(ctx, case):
    rec = ctx.rec
    d = os.path.join(ctx.scratch, 'c19s')
    os.makedirs(d, exist_ok=True)
    path = os.path.join(d, 'mod_under_test.py')
    with open(path, 'w') as f:
        f.write(module_source(case['classes']))
    log = os.path.join(d, 'hits.log')
    if os.path.exists(log):
        os.unlink(log)
    runs = case['runs']
    rec.case(case, nontrivial=len(runs) > 1, cls=[('mode=session',), ('session_modes=' + '+'.join(r['argv_model']['mode'] for r in runs),)])
    res = forkserver.fork_run(lambda: session_child(path, log, [r['argv'] for r in runs]), ['session'], cwd=d,
                              env={'VT_LOG': log, 'TDDA_FAIL_DIR': d}, scratch=ctx.scratch)
    rec.event('runs:in_process_sessions')
    if res.timed_out or res.status != 0:
        rec.violation('session_failed', {'case': case, 'mech': {'status': res.status}, 'facts': {'stderr_tail': res.err[-500:]}})
        return
    chunks = re.split(r'^==run (\d+)\n', open(log).read() if os.path.exists(log) else '', flags=re.M)
    hits = {int(chunks[i]): [l.split()[0] for l in chunks[i + 1].splitlines() if l.strip()] for i in range(1, len(chunks) - 1, 2)}
    outs = re.split('\x1e(\\d+)\x1e\n', res.out)
    listed = {int(outs[i]): outs[i + 1] for i in range(1, len(outs) - 1, 2)}
    for k, r in enumerate(runs):
        am = dict(r['argv_model'], module='mod_under_test')
        exp = tagselect.expected({'classes': case['classes'], 'argv_model': am})
        got = hits.get(k, [])
        mech = {'via': 'session', 'mode': am['mode'], 'position': 'first' if k == 0 else 'later',
                'earlier_modes': sorted(set(x['argv_model']['mode'] for x in runs[:k]))}
        facts = {'argv': r['argv'], 'before_it': [x['argv'] for x in runs[:k]], 'executed': got[:12], 'expected': exp['executed'][:12]}
        rec.event('session:run_compared')
        if sorted(got) != sorted(exp['executed']):
            rec.violation('wrong_tests_executed', {'case': case, 'mech': mech, 'facts': facts})
        elif am['mode'] == 'list':
            named = set(l.strip().split('.')[-1] for l in listed.get(k, '').splitlines() if l.strip() and re.match(r'^[\w.]+$', l.strip()))
            if named != exp['listing']:
                rec.violation('listing_names', {'case': case, 'mech': mech, 'facts': dict(facts, listed=sorted(named), want=sorted(exp['listing']))})


def run_shard(ctx):
    rng = ctx.rng
    for i in range(ctx.params.get('sessions', 0)):
        classes = gen_module(rng)
        runs = []
        for j in range(rng.choice([2, 3, 4])):
            a = gen_argv(rng, classes, rng.randrange(9))
            if a['write'] or a.get('k'):
                continue                      # (regeneration settings are C10's business; unittest itself leaves -k patterns
                                              #  on its shared default loader between in-process runs)
            runs.append({'argv': a['argv'], 'argv_model': a['argv_model']})
        if runs:
            run_session(ctx, {'classes': classes, 'runs': runs, 'via': 'session'})
    for i in range(ctx.params.get('pytest_runs', 0)):
        run_pytest_case(ctx, gen_pytest_case(rng, i))
    k = 0
    for m in range(ctx.params['modules']):
        classes = gen_module(rng)
        for a in range(ctx.params['argvs']):
            k += 1
            case = dict(gen_argv(rng, classes, a + m), classes=classes, ending='function' if (a + m) % 5 == 3 else 'class')
            if m % 4 == 2 and not case.get('k'):
                case['load_tests'] = True        # (-k acts inside the loader's own name collection, which such a hook does not use)
            obs = run_case(ctx, case)
            if obs is not None and k % ctx.params['real_every'] == 1:
                real = run_case(ctx, case, real=True)
                ctx.rec.event('runs:real_crosscheck')
                if real is None or (real['executed'], real['status']) != (obs['executed'], obs['status']):
                    ctx.rec.violation('forkserver_disagrees_with_real_process',
                                      {'case': case, 'mech': {'harness': True}, 'facts': {'fork': common.jsafe(obs), 'real': common.jsafe(real)}})

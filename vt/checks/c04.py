"""C04 — text comparison passes exactly when the texts agree modulo the declared exclusions.

Deciding monitors: (a) icontract post-condition on the real FilesComparison.check_strings -
the three-valued reference rule (oracles/textcmp.py) is evaluated on the very arguments each
call received, whichever entry point made it; (b) the harness compares the outcome seen by
the assertion function of assertStringCorrect / assertTextFileCorrect / assertTextFilesCorrect
with the rule applied to the texts it wrote.
"""
import os

from vt import common
from vt.gens import texts as T
from vt.monitors import contracts
from vt.oracles import textcmp

ID = 'C04'
TIERS = {
    'quick': dict(shards=16, cases=8000, watchdog_s=900),
    'thorough': dict(shards=16, cases=300000, watchdog_s=6000),
}
RULE = ('case = (reference lines, actual = reference with 0-3 near-miss edits: number/char/word/whitespace edit, '
        'insert, delete, swap, trailing empty line, removable line) x one of the 128 subsets of {lstrip, rstrip, '
        'ignore_substrings, ignore_patterns, remove_lines, preprocess, max_permutation_cases} (the first 128 cases of '
        'shard 0 enumerate the subsets) x entry point {check_strings, string-vs-file (actual as string, list or tuple of lines), file-vs-file, list-of-files} x '
        'line-ending flavour. Non-trivial = actual differs from reference or an option is in force.')
ASSUMPTIONS = [
    'lines = str.splitlines(); one trailing empty element is outside the comparison (verdicts hinging on it are unspecified)',
    "must-pass uses the strict reading of 'differ only in parts matched by an ignore-pattern' (leftmost non-overlapping matches replaced), must-fail the most generous one (any alignment of matches); in between is unspecified",
    'ignore-patterns anchored on one side only, or able to match the empty string, are unspecified',
]
REQUIRED_MONITORS = ['history:options_withdrawn', 'contract:check_strings', 'oracle:must-pass', 'oracle:must-fail', 'entry:check_strings',
                     'entry:string', 'entry:file', 'entry:files', 'files:paths_shared_between_pairs']
REQUIRED_CLASSES = ['subset=0', 'subset=127']

_rt = None
_outcomes = []


def rt():
    global _rt
    if _rt is None:
        contracts.attach('textcmp')
        from tdda.referencetest.referencetest import ReferenceTest
        ReferenceTest.set_defaults(verbose=False, tmp_dir=os.environ.get('TMPDIR'))

        def assert_fn(ok, msg):
            _outcomes.append((bool(ok), msg))
        _rt = ReferenceTest(assert_fn)
    return _rt


def write(path, text, encoding='utf-8'):
    with open(path, 'w', encoding=encoding, newline='') as f:
        f.write(text)


def gen_case(rng, i=None, shard=0):
    act, ref, muts = T.gen_pair(rng)
    opts, subset = T.gen_opts(rng, i if (i is not None and i < 128 and shard == 0) else None)
    if any(m.startswith('dup-') for m in muts) and rng.random() < 0.8:
        opts['max_permutation_cases'] = rng.choice([3, 4, 6])
        subset |= 64
    entry = rng.choice(['check_strings', 'check_strings', 'string', 'file', 'files'])
    case = {'opts': opts, 'subset': subset, 'entry': entry, 'muts': muts, 'spell_ignore_lines': rng.random() < 0.3}
    if entry == 'file' and rng.random() < 0.15:
        case['names'] = rng.choice([['out.txt', 'ref.pdf'], ['out.pdf', 'ref.pdf'], ['out.dat', 'ref.csv'], ['OUT.TXT', 'ref.PDF'], ['out.csv', 'ref.pdf']])
    if entry == 'string' and rng.random() < 0.3:
        # the actual given as a sequence of lines instead of one string: split lines, or lines that keep their terminator
        # (what readlines() returns)
        case['actual_form'] = rng.choice(['lines', 'tuple', 'readlines', 'readlines-tuple'])
    if entry == 'check_strings':
        case['actual'], case['expected'] = act, ref
    else:
        case['actual_text'] = T.to_text(rng, act)
        case['expected_text'] = T.to_text(rng, ref)
        if entry == 'files':
            # the interesting pair sits among good ones
            good = T.to_text(rng, ref)
            case['others'] = [[good, good], [T.to_text(rng, act[:2]), T.to_text(rng, act[:2])]]
            case['pos'] = rng.randrange(3)
            if rng.random() < 0.35:
                # further pairs that recombine an actual file and a reference file already named in other pairs of the same call
                case['cross'] = [rng.sample(range(3), 2) for _ in range(rng.choice([1, 2]))]
    return case


def run_case(ctx, case):
    rec = ctx.rec
    r = rt()
    o = case['opts']
    ro = T.real_opts(o)
    oo = dict(ro)
    if case.get('spell_ignore_lines') and 'remove_lines' in ro and case['entry'] != 'check_strings':
        ro['ignore_lines'] = ro.pop('remove_lines')       # the documented older spelling of remove_lines
        rec.event('options:ignore_lines_spelling')
    if 'preprocess' in oo:
        oo['preprocess_fn'] = oo.pop('preprocess')
    entry = case['entry']
    del _outcomes[:]
    del contracts.TEXT_LOG[:]
    d = ctx.scratch
    try:
        if entry == 'check_strings':
            fc = r.files          # the comparison object of the long-lived ReferenceTest: state kept on it
            res = fc.check_strings(list(case['actual']), list(case['expected']), **ro)
            got = 'pass' if res.failures == 0 else 'fail'
            pairs = [(case['actual'], case['expected'])]
        else:
            ap, ep = os.path.join(d, 'act.txt'), os.path.join(d, 'ref.txt')
            write(ep, case['expected_text'])
            pairs = [(case['actual_text'].splitlines(), case['expected_text'].splitlines())]
            if entry == 'string':
                form = case.get('actual_form')
                actual = case['actual_text']
                if form:
                    actual = actual.splitlines(form.startswith('readlines'))
                    actual = tuple(actual) if form.endswith('tuple') else actual
                    rec.event('actual:sequence_of_lines')
                r.assertStringCorrect(actual, ep, **ro)
            elif entry == 'file':
                if case.get('names'):
                    # (both files are decoded by one rule, the one the REFERENCE's name selects: iso-8859-1 for .pdf, else UTF-8)
                    os.unlink(ep)
                    ap, ep = os.path.join(d, case['names'][0]), os.path.join(d, case['names'][1])
                    write(ep, case['expected_text'])
                    rec.event('files:named_with_different_extensions')
                write(ap, case['actual_text'])
                r.assertTextFileCorrect(ap, ep, **ro)
                if case.get('names'):
                    for p_ in (ap, ep):
                        os.unlink(p_)
            else:
                write(ap, case['actual_text'])
                aps, eps, pairs = [], [], []
                texts = list(case['others'])
                texts.insert(case['pos'], [case['actual_text'], case['expected_text']])
                for k, (a, e) in enumerate(texts):
                    pa, pe = os.path.join(d, 'a%d.txt' % k), os.path.join(d, 'e%d.txt' % k)
                    write(pa, a)
                    write(pe, e)
                    aps.append(pa)
                    eps.append(pe)
                    pairs.append((a.splitlines(), e.splitlines()))
                for i_, j_ in case.get('cross') or []:
                    aps.append(aps[i_])
                    eps.append(eps[j_])
                    pairs.append((texts[i_][0].splitlines(), texts[j_][1].splitlines()))
                    rec.event('files:paths_shared_between_pairs')
                r.assertTextFilesCorrect(aps, eps, **ro)
            if len(_outcomes) != 1:
                rec.violation('assert_fn_calls', {'case': case, 'mech': {'entry': entry}, 'facts': {'n': len(_outcomes)}})
                return
            got = 'pass' if _outcomes[0][0] else 'fail'
    except Exception as e:
        contracts.drain()
        m = common.short_tb(e)
        rec.case(case, cls=[('entry=' + entry,), ('subset=%d' % case['subset'],)])
        pats = o.get('ignore_patterns') or []
        if any(textcmp.pattern_kind(p) == 'half' or textcmp.can_match_empty(p) for p in pats):
            rec.unspecified('exception under an ignore-pattern that can match the empty string (%s)' % m['exc'])
            return
        rec.violation('raises', {'case': case, 'mech': {'exc': m['exc'], 'where': m['where']}, 'facts': m})
        return
    rec.event('entry:' + entry)
    # harness-side expectation from the texts themselves
    vs = [textcmp.verdict(a, e, oo) for a, e in pairs]
    if case.get('names') and case['names'][1].lower().endswith('.pdf'):
        both = case['actual_text'] + case['expected_text']
        raw = both.encode('utf-8')
        optstrings = ''.join(x for k in ('ignore_substrings', 'remove_lines', 'ignore_patterns') for x in (o.get(k) or []))
        if not raw.isascii() and (any(b in raw for b in (b'\x85', b'\xa0')) or any(ch in both for ch in '\x85\u2028\u2029')
                                  or o.get('ignore_patterns') or o.get('preprocess') or not optstrings.isascii()):
            # read as iso-8859-1, a multi-byte character is several other characters: bytes that become line ends or blanks,
            # Unicode line separators that stop being line ends, and option strings that no longer occur have no set verdict
            vs = [('unspecified', {'why': 'UTF-8 text read as iso-8859-1 in a way that changes its line structure or the options\' reach'})]
    if case.get('actual_form'):
        # a sequence of lines carries no "ends with a newline" of its own: verdicts that hinge on trailing empty lines are not judged
        def _trim(ls):
            ls = list(ls)
            while ls and not ls[-1].strip():
                ls.pop()
            return ls
        v2 = textcmp.verdict(_trim(pairs[0][0]), _trim(pairs[0][1]), oo)
        if v2[0] != vs[0][0]:
            vs = [('unspecified', {'why': 'sequence of lines: verdict hinges on trailing empty lines'})]
    if (case.get('actual_form') or '').startswith('readlines') and not (vs[0][0] == 'fail' and not o.get('ignore_patterns') and not o.get('preprocess')):
        # elements that keep their line terminator: a difference between the texts themselves must still be reported; whether
        # the terminators alone count as a difference (or are covered by rstrip / a pattern) is not something the documentation settles
        vs = [('unspecified', {'why': 'lines given with their terminators: only differences of the texts themselves are judged'})]
    if any(v == 'fail' for v, _ in vs):
        want = 'fail'
    elif all(v == 'pass' for v, _ in vs):
        want = 'pass'
    else:
        want = 'unspecified'
    info = vs[case.get('pos', 0) if entry == 'files' else 0][1]
    nontrivial = bool(case['muts']) or bool(o)
    rec.case(case, nontrivial=nontrivial,
             cls=[('entry=' + entry,), ('subset=%d' % case['subset'],), ('oracle=' + want,)] +
                 [('mut=' + m,) for m in set(case['muts'])])
    rec.event('oracle:must-' + want if want != 'unspecified' else 'oracle:unspecified')
    broken = contracts.drain()
    if want == 'unspecified':
        rec.unspecified(info.get('why', 'ambiguous'))
    elif want != got:
        rec.violation('false_alarm' if want == 'pass' else 'missed_difference', {
            'case': case,
            'mech': {'why': info.get('why'),
                     'strip_only_excuse': bool(info.get('strip_only_excuse')),
                     'perm_strip_only': bool(info.get('perm_strip_only')),
                     'strip': bool(o.get('lstrip') or o.get('rstrip')),
                     'patterns': bool(o.get('ignore_patterns')), **({'paths_shared_between_pairs': True} if case.get('cross') else {})},
            'facts': {'oracle': want, 'tdda': got, 'info': info, 'entry': entry, 'opts': sorted(o)}})
        return
    for b in broken:
        rec.violation('contract:check_strings', {'case': case, 'mech': {'oracle': b['facts'].get('oracle')}, 'facts': b['facts']})


def run_shard(ctx):
    import copy
    for i in range(ctx.params['cases']):
        case = gen_case(ctx.rng, i, ctx.shard)
        run_case(ctx, case)
        o = case['opts']
        if i % 5 == 2 and any(k in o for k in ('ignore_patterns', 'ignore_substrings', 'remove_lines', 'max_permutation_cases')):
            # history on one comparison object: the SAME texts again with the excusing options withdrawn (and
            # then once more with them back) - whatever was excused before must be judged afresh
            c2 = copy.deepcopy(case)
            c2['opts'] = {k: v for k, v in o.items() if k not in ('ignore_patterns', 'ignore_substrings', 'remove_lines', 'max_permutation_cases')}
            c2['subset'] = case['subset'] & ~(4 | 8 | 16 | 64)
            c2['sequel'] = 'options-withdrawn'
            run_case(ctx, c2)
            ctx.rec.event('history:options_withdrawn')
            c3 = copy.deepcopy(case)
            c3['sequel'] = 'options-restored'
            run_case(ctx, c3)
    for k, v in contracts.EVALS.items():
        ctx.rec.event('contract:' + k, v)
    contracts.EVALS.clear()

"""Trusting the monitors: apply property-breaking changes to a scratch COPY of the tdda tree and
require the property's check to fire there (and optionally that the repository's own baseline
still passes there, i.e. that the change is one the tests cannot see).

usage (cwd=/verif):
  python -m vt.selftest [--tier quick|thorough] [--baseline] [--all-checks] [name-filter ...]

Sources of changes:
  mutants/<Cxx>/<name>.diff      hand-written mutants (one per file)
  seeded/<id>/patch.diff         changes produced independently by sub-agents (meta.json names the property)

Nothing is ever applied to /repo itself: the tree is rsynced to /var/tmp/vt-selftest-<pid>/repo,
the patch is applied there and the checks run with VT_REPO pointing at the copy.
"""
import glob
import json
import os
import shutil
import subprocess
import sys
import time

HERE = os.path.dirname(os.path.dirname(os.path.abspath(__file__)))
REPO = os.environ.get('VT_REPO_SRC', '/repo')


def sources(filters):
    out = []
    for p in sorted(glob.glob(os.path.join(HERE, 'mutants', '*', '*.diff'))):
        prop = os.path.basename(os.path.dirname(p))
        out.append({'name': 'mutants/%s/%s' % (prop, os.path.basename(p)[:-5]), 'patch': p, 'props': [prop]})
    for d in sorted(glob.glob(os.path.join(HERE, 'seeded', '*'))):
        meta = os.path.join(d, 'meta.json')
        patch = os.path.join(d, 'patch.diff')
        if os.path.exists(meta) and os.path.exists(patch):
            m = json.load(open(meta))
            props = m.get('caught_by') or [m['property']]
            out.append({'name': 'seeded/' + os.path.basename(d), 'patch': patch, 'props': [m['property']] + [p for p in props if p != m['property']],
                        'demo': os.path.join(d, m.get('demo', 'demo.py'))})
    if filters:
        out = [s for s in out if any(f in s['name'] for f in filters)]
    return out


def run(cmd, **kw):
    return subprocess.run(cmd, stdout=subprocess.PIPE, stderr=subprocess.STDOUT, universal_newlines=True, **kw)


def main():
    args = sys.argv[1:]
    tier = 'quick'
    if '--tier' in args:
        tier = args[args.index('--tier') + 1]
        del args[args.index('--tier'):args.index('--tier') + 2]
    want_baseline = '--baseline' in args
    all_checks = '--all-checks' in args
    seeds = ['0']
    if '--seeds' in args:
        seeds = args[args.index('--seeds') + 1].split(',')
        del args[args.index('--seeds'):args.index('--seeds') + 2]
    filters = [a for a in args if not a.startswith('--')]
    work = '/var/tmp/vt-selftest-%d' % os.getpid()
    results = []
    allprops = ['C%02d' % i for i in range(1, 20)]
    try:
        for s in sources(filters):
            copy = os.path.join(work, 'repo')
            shutil.rmtree(work, ignore_errors=True)
            os.makedirs(work)
            run(['rsync', '-a', '--exclude', '.git', REPO + '/', copy + '/'])
            r = run(['patch', '-p1', '--no-backup-if-mismatch', '-i', s['patch']], cwd=copy)
            if r.returncode != 0:
                results.append((s['name'], 'PATCH-DOES-NOT-APPLY', r.stdout[-300:]))
                print('%-45s patch does not apply' % s['name'])
                continue
            base = ''
            if want_baseline:
                b = run([os.path.join(HERE, 'baseline.sh'), copy])
                base = 'baseline-ok' if b.returncode == 0 else 'BASELINE-BROKEN'
            if s.get('demo') and os.path.exists(s['demo']):
                env = dict(os.environ, PYTHONPATH=copy)
                d = run(['/venv/bin/python', '-W', 'ignore', s['demo']], env=env, cwd=work)
                base += ' demo-fails' if d.returncode != 0 else ' DEMO-PASSES-WITH-CHANGE'
            fired = []
            silent = []
            t0 = time.time()
            for prop in (allprops if all_checks else s['props']):
                hit = False
                for seed in seeds:
                    env = dict(os.environ, VT_REPO=copy, VT_EVIDENCE=os.path.join(work, 'ev.json'), VERIF_SEED=seed)
                    c = run([os.path.join(HERE, 'check'), prop, tier], env=env, cwd=HERE)
                    if c.returncode == 1 and 'VIOLATION property=%s' % prop in c.stdout:
                        hit = True
                        break
                    if c.returncode == 2:
                        hit = 'inconclusive'
                (fired if hit is True else silent).append(prop if hit != 'inconclusive' else prop + '(inconclusive)')
            verdict = 'CAUGHT' if s['props'][0] in fired else ('caught-by-other' if fired else 'MISSED')
            results.append((s['name'], verdict, 'fired=%s silent=%s %s %.0fs' % (fired, silent, base, time.time() - t0)))
            print('%-45s %-16s fired=%s silent=%s %s' % (s['name'], verdict, ','.join(fired), ','.join(silent), base))
            sys.stdout.flush()
            # replay files written while running against the copy are not findings about /repo
            shutil.rmtree(os.path.join(HERE, 'replays'), ignore_errors=True); os.makedirs(os.path.join(HERE, 'replays'), exist_ok=True); open(os.path.join(HERE, 'replays', '.keep'), 'w').close()
    finally:
        shutil.rmtree(work, ignore_errors=True)
    missed = [r for r in results if r[1] not in ('CAUGHT',)]
    print('\n%d changes, %d caught by their own property\'s check' % (len(results), len(results) - len(missed)))
    with open(os.path.join(HERE, 'selftest_last.json'), 'w') as f:
        json.dump(results, f, indent=1)
    # cumulative record (committed): latest verdict per change
    cum_path = os.path.join(HERE, 'selftest_results.json')
    cum = json.load(open(cum_path)) if os.path.exists(cum_path) else {}
    for name, verdict, detail in results:
        cum[name] = {'verdict': verdict, 'detail': detail, 'tier': tier}
    with open(cum_path, 'w') as f:
        json.dump(cum, f, indent=1, sort_keys=True)
    return 1 if missed else 0


if __name__ == '__main__':
    sys.exit(main())

"""Deterministic shell commands with generated output, for gentest (C11/C12).

A command spec:
  {'stdout': [lines], 'stderr': [lines], 'files': [{'name', 'kind': 'text'|'binary', 'lines'|'hex'}], 'status': n}
is rendered as an sh script.  Every output statement can be switched to a mutated variant
by the environment variable VT_MUT=<k>, so "the command subsequently behaves differently" is a
pure change of the command, never of the test.
"""
import datetime
import os
import shlex

WORDS = ['alpha', 'beta', 'total', 'rows', 'ok', 'done', 'Ünï', '日本', 'warning:', 'items', 'rate', '5 Å', 'kΩ']
# one character -> another code point (sequence) that is canonically equivalent and renders alike: a change of the output all the same
EQUIVALENT = {'Ü': 'U\u0308', 'ï': 'i\u0308', 'Å': '\u212b', 'Ω': '\u2126'}


def _equiv_line(lines):
    for k, l in enumerate(lines):
        if any(ch in l for ch in EQUIVALENT):
            return k
    return None


def _equiv_swap(l):
    for ch in l:
        if ch in EQUIVALENT:
            return l.replace(ch, EQUIVALENT[ch], 1)
    return l

PUNCT = ['(', ')', '[x]', 'a|b', '*', '$HOME', '\\n', '"quoted"', "it's", '100%', '^start', 'end$', 'a.b', '{k: v}', '<tag>', '#', '~', 'C:\\dir']
DATELIKE = ['31/02/2020', '2020-01-15', '1999-12-31', '12/25/2001', '15 Jan 2019', 'March 3, 2018', '2020-01-15 10:11:12',
            '2021-06-30T23:59:59', '1.2.3', '10-11-12', '00/00/00', '99.99.99']
VERSIONLIKE = ['version 1.2.0 build 15', 'v2.10.3', 'release 2020.1', 'build 0015']
TIMELIKE = ['12:30:45', '0:00', '23:59:59.123', 'took 0.5s']
PATHLIKE = ['/usr/local/bin', './rel/path.txt', '/etc/passwd', '../up']
TEXT_EXTS = ['txt', 'log', 'csv', 'json', 'md']
BIN_EXTS = ['bin', 'dat', 'png']


def gen_line(rng, uid, tokens):
    """A line carrying a unique id; tokens = machine/time-specific strings that may be mixed in."""
    parts = ['id%s' % uid]
    for _ in range(rng.randint(0, 4)):
        r = rng.random()
        if r < 0.35:
            parts.append(rng.choice(WORDS))
        elif r < 0.5:
            parts.append(str(rng.randrange(100000)))
        elif r < 0.62:
            parts.append(rng.choice(PUNCT))
        elif r < 0.74:
            parts.append(rng.choice(DATELIKE))
        elif r < 0.8:
            parts.append(rng.choice(VERSIONLIKE))
        elif r < 0.86:
            parts.append(rng.choice(TIMELIKE))
        elif r < 0.92:
            parts.append(rng.choice(PATHLIKE))
        elif tokens:
            parts.append(rng.choice(tokens))
    return ' '.join(parts)


def gen_command(rng, tokens, i=0):
    uid = [0]

    def lines(n):
        out = []
        for _ in range(n):
            uid[0] += 1
            out.append(gen_line(rng, '%d_%d' % (i, uid[0]), tokens))
        return out
    spec = {'stdout': lines(rng.choice([0, 1, 2, 4, 7])), 'stderr': lines(rng.choice([0, 0, 1, 3])), 'files': [],
            'status': rng.choice([0, 0, 0, 1, 3, 255])}
    nfiles = rng.choice([0, 0, 1, 2, 3])
    names = file_names(rng, nfiles)
    for k, name in enumerate(names):
        text = name.rsplit('.', 1)[-1] in TEXT_EXTS or '.' not in name
        if text and rng.random() < 0.12:
            # a text file that is not UTF-8: Latin-1 / Windows-1252 / UTF-16 text under a name that says "text"
            sample = rng.choice(['café au lait', 'naïve façade — déjà vu', 'Ünïcödé', 'plain ascii then é', 'ÿ'])
            enc = rng.choice(['latin-1', 'latin-1', 'cp1252', 'utf-16'])
            body = '\n'.join([sample] * rng.choice([1, 2, 6])) + '\n'
            spec['files'].append({'name': name, 'kind': 'binary', 'hex': body.encode(enc, 'replace').hex(), 'encoded_text': enc})
        elif text:
            spec['files'].append({'name': name, 'kind': 'text', 'lines': lines(rng.choice([1, 2, 5]))})
        elif rng.random() < 0.08:
            # a LARGE nearly-text file (past any block size a reader might use): a unit of UTF-8 text repeated to just over
            # 1 MiB / 64 KiB / 8 KiB, ending part-way through a multi-byte character
            unit = ('données €uro 日本語 naïve ' * 40)[:1000].encode('utf-8')[:1020] + b'\n'
            unit = unit.decode('utf-8', 'ignore').encode('utf-8')
            total = rng.choice([1 << 20, 1 << 20, 1 << 16, 1 << 13])        # counted in CHARACTERS as well as in bytes
            nchars = len(unit.decode('utf-8'))
            spec['files'].append({'name': name, 'kind': 'binary', 'hex': 'e282', 'unit_hex': unit.hex(), 'repeat': total // nchars + 2})
        else:
            spec['files'].append({'name': name, 'kind': 'binary', 'hex': binary_content(rng).hex()})
    for f in spec['files']:
        if rng.random() < 0.2:
            f['pin_mtime'] = True       # the command gives its output a fixed modification time (cp -p, tar x, touch -d ...)
    return spec


def binary_content(rng):
    """Bytes for a file whose name does not say "text": mostly random, sometimes nearly-text (what an encoding
    detector is most likely to misjudge)."""
    r = rng.random()
    if r < 0.7:
        return bytes(rng.randrange(256) for _ in range(rng.choice([1, 8, 64])))
    sample = rng.choice(['日本語のテキスト', 'Ünïcödé çà et là', 'Привет, мир', 'naïve café', 'données 42 €'])
    u = (sample * rng.choice([1, 1, 3])).encode('utf-8')
    if r < 0.8:
        # UTF-8 text cut part-way through its last multi-byte character
        while u and u[-1] < 0x80:
            u = u[:-1]
        return u[:-1]
    if r < 0.87:
        # UTF-8 text with one impossible byte in the middle
        k = len(u) // 2
        return u[:k] + b'\xff' + u[k:]
    if r < 0.94:
        return sample.encode('utf-16')
    return (sample * 2).encode('latin-1', 'ignore') + bytes([0x81, 0x8d])


NAME_FAMILIES = [
    ['out-a.txt', 'out_a.txt', 'out.a.txt'],                 # distinct names, same identifier once sanitised
    ['north/Report.csv', 'south/Report.csv', 'Report.csv'],  # same base name in different directories, capitals
    ['out1.log', 'OUT1.log', 'out1.LOG'],                    # differ in case only
    ['README', 'data/README', 'out.tar.dat'],
    ['../work.log', '../work-extra.txt', 'out0.txt'],        # beside the working directory ("work"), sharing its prefix
    ['TMPDIR/tmpout.txt', 'out0.txt', 'TMPDIR/scratch.dat'],  # written under $TMPDIR (gentest watches its own $TMPDIR)
    ['TMPDIR/only.log'],
    ['HOME/report.txt', 'out0.txt'],                         # written in the user's home directory, named to gentest as ~/report.txt
    ['HOME/notes/summary.log'],
]
TMP_PREFIX = 'TMPDIR/'
HOME_PREFIX = 'HOME/'


def sh_path(name):
    """The file name as the sh script writes it."""
    if name.startswith(TMP_PREFIX):
        return '"$TMPDIR"/' + shlex.quote(name[len(TMP_PREFIX):])
    if name.startswith(HOME_PREFIX):
        return '"$HOME"/' + shlex.quote(name[len(HOME_PREFIX):])
    return shlex.quote(name)


def real_path(name, workdir, tmpdir, home=None):
    if name.startswith(TMP_PREFIX):
        return os.path.join(tmpdir, name[len(TMP_PREFIX):])
    if name.startswith(HOME_PREFIX):
        return os.path.join(home or os.path.expanduser('~'), name[len(HOME_PREFIX):])
    return os.path.join(workdir, name)


def elsewhere(name):
    """Not under the working directory."""
    return name.startswith(TMP_PREFIX) or name.startswith(HOME_PREFIX)


def file_names(rng, n):
    if n == 0:
        return []
    if (n >= 2 and rng.random() < 0.35) or rng.random() < 0.06:
        fam = rng.choice(NAME_FAMILIES)
        return rng.sample(fam, min(n, len(fam)))
    out = []
    for k in range(n):
        ext = rng.choice(TEXT_EXTS) if rng.random() < 0.7 else rng.choice(BIN_EXTS)
        out.append('out%d.%s' % (k, ext))
    return out


TMPDIR_TOKEN = 'TMPDIRTOKEN'      # stands for the value $TMPDIR has when the command runs (expanded by the shell, per run)


def _sh_word(l):
    return '"$TMPDIR"'.join(shlex.quote(part) if part else '' for part in l.split(TMPDIR_TOKEN)) or "''"


def _printf_text(lines):
    if not lines:
        return ':'
    return 'printf ' + shlex.quote('%s\\n') + ' ' + ' '.join(_sh_word(l) for l in lines)


def _printf_bin(data):
    return 'printf ' + shlex.quote(''.join('\\%03o' % b for b in data)) if data else 'printf ""'


def mutations(spec):
    """All single changes: list of dicts {k, target, how, ...}; k is the VT_MUT value."""
    muts = []
    k = 0
    for stream in ('stdout', 'stderr'):
        n = len(spec[stream])
        for how in ('alter', 'add', 'remove') + (('alter_token',) if spec.get('machine') else ()):
            if how != 'add' and n == 0:
                continue
            k += 1
            muts.append({'k': k, 'target': stream, 'how': how, 'line': (k * 7) % n if n else 0})
        if _equiv_line(spec[stream]) is not None:
            k += 1
            muts.append({'k': k, 'target': stream, 'how': 'alter_equivalent', 'line': _equiv_line(spec[stream])})
    for fi, f in enumerate(spec['files']):
        for how in (('alter', 'add', 'missing') + (('alter_token',) if spec.get('machine') else ())) if f['kind'] == 'text' \
                else ('alter', 'append', 'missing'):
            k += 1
            n = len(f['lines']) if f['kind'] == 'text' else len(bytes.fromhex(f['hex']))
            muts.append({'k': k, 'target': 'file', 'file': fi, 'name': f['name'], 'how': how, 'line': (k * 5) % n if n else 0})
        if f['kind'] == 'text' and _equiv_line(f['lines']) is not None:
            k += 1
            muts.append({'k': k, 'target': 'file', 'file': fi, 'name': f['name'], 'how': 'alter_equivalent', 'line': _equiv_line(f['lines'])})
    k += 1
    muts.append({'k': k, 'target': 'status', 'how': 'change'})
    return muts


def mutated(spec, mut):
    """spec with one mutation applied (pure data)."""
    import copy
    s = copy.deepcopy(spec)
    t = mut['target']
    if t in ('stdout', 'stderr'):
        ls = s[t]
        if mut['how'] == 'alter':
            ls[mut['line']] = ls[mut['line']] + ' CHANGED'
        elif mut['how'] == 'alter_token':
            # the NEW text mentions something machine-specific (the working directory) that the old line did not
            ls[mut['line']] = 'now in ' + s['machine']['cwd']
        elif mut['how'] == 'alter_equivalent':
            ls[mut['line']] = _equiv_swap(ls[mut['line']])
        elif mut['how'] == 'add':
            ls.insert(mut['line'], 'an extra line')
        else:
            del ls[mut['line']]
    elif t == 'file':
        f = s['files'][mut['file']]
        if mut['how'] == 'missing':
            f['missing'] = True
        elif f['kind'] == 'text':
            if mut['how'] == 'alter':
                f['lines'][mut['line']] = f['lines'][mut['line']] + ' CHANGED'
            elif mut['how'] == 'alter_token':
                f['lines'][mut['line']] = 'now in ' + s['machine']['cwd']
            elif mut['how'] == 'alter_equivalent':
                f['lines'][mut['line']] = _equiv_swap(f['lines'][mut['line']])
            else:
                f['lines'].insert(mut['line'], 'an extra line')
        else:
            b = bytearray.fromhex(f['hex'])
            if mut['how'] == 'alter' and b:
                b[mut['line']] = (b[mut['line']] + 1) % 256
            else:
                b.append(7)
            f['hex'] = bytes(b).hex()
    else:
        s['status'] = (s['status'] + 1) % 200 + (1 if s['status'] == 255 else 0)
    return s


def _body(spec):
    out = [_printf_text(spec['stdout']), _printf_text(spec['stderr']) + ' >&2']
    dirs = sorted(set(f['name'].rsplit('/', 1)[0] for f in spec['files'] if '/' in f['name'] and not elsewhere(f['name'])))
    if dirs:
        out.append('mkdir -p ' + ' '.join(shlex.quote(d) for d in dirs))
    for f in spec['files']:
        if f['name'].startswith(HOME_PREFIX) and '/' in f['name'][len(HOME_PREFIX):]:
            out.append('mkdir -p "$HOME"/' + shlex.quote(f['name'][len(HOME_PREFIX):].rsplit('/', 1)[0]))
    for f in spec['files']:
        if f.get('missing'):
            out.append(': # (this run does not produce %s)' % f['name'].replace("'", ''))
        elif f['kind'] == 'text':
            out.append(_printf_text(f['lines']) + ' > ' + sh_path(f['name']))
        elif f.get('repeat'):
            out.append('i=0; : > %s; while [ $i -lt %d ]; do %s; i=$((i+1)); done >> %s' % (
                sh_path(f['name']), f['repeat'], _printf_bin(bytes.fromhex(f['unit_hex'])), sh_path(f['name'])))
            out.append(_printf_bin(bytes.fromhex(f['hex'])) + ' >> ' + sh_path(f['name']))
        else:
            out.append(_printf_bin(bytes.fromhex(f['hex'])) + ' > ' + sh_path(f['name']))
    for f in spec['files']:
        if f.get('pin_mtime') and not f.get('missing'):
            out.append("touch -d '2020-02-02 02:02:02' " + sh_path(f['name']))
    out.append('exit %d' % spec['status'])
    return out


def render(spec):
    """sh script text: VT_MUT=k selects mutation k, anything else the original behaviour."""
    s = ['#!/bin/sh', 'case "$VT_MUT" in']
    for m in mutations(spec):
        s.append('  %d)' % m['k'])
        s += ['    ' + l for l in _body(mutated(spec, m))]
        s.append('    ;;')
    s.append('  *)')
    s += ['    ' + l for l in _body(spec)]
    s.append('    ;;')
    s.append('esac')
    return '\n'.join(s) + '\n'


def today_tokens():
    """Dates gentest may take for "now": the day of the run and, as documented, the day before and the day after."""
    out = []
    for k in (0, -1, 1):
        t = datetime.date.today() + datetime.timedelta(days=k)
        out += [t.isoformat(), t.strftime('%d/%m/%Y'), t.strftime('%d %b %Y')]
    return out


def near_dates():
    """Dates just OUTSIDE that window (two and three days away): ordinary content, not run-specific."""
    out = []
    for k in (2, -2, 3):
        t = datetime.date.today() + datetime.timedelta(days=k)
        out += [t.isoformat(), t.strftime('%d/%m/%Y')]
    return out

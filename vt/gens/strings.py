"""Hostile string generators (small alphabets so collisions and shared signatures occur)."""
import string

LETTERS = list('abzAZqQ')
DIGITS = list('0189')
PUNCT = list(string.punctuation)            # all 32 ASCII punctuation marks
HOT_PUNCT = list('^-]\\[') * 3              # extra weight on the bracket-sensitive ones
WS = [' ', '\t', '\n', '\r', '\x0b', '\x0c', '\x1c', '\x1d', '\x1e', '\x1f', '\x85', '\xa0', ' ', '　']
CTRL = ['\x00', '\x7f', '\x01', '\x1b']
UL = ['é', 'ß', 'İ', 'ǅ', '日', 'Ω', 'ж']
LETTERNUM = ['Ⅷ', 'ⅳ']
UDIGIT = ['٣', '४', '０']                   # Nd: match \d under re.UNICODE
DIGITLIKE = ['²', '①', '⒈', '³']           # isdigit() but not \d
NUMERIC = ['½', '〇']                        # isnumeric only / letter-number
ASTRAL = ['😀', '𝟘', '𐍈']                   # 𝟘 is an astral Nd digit
EXTRA = ['_', '.', '-']

POOLS = {
    'letters': LETTERS, 'digits': DIGITS, 'punct': PUNCT + HOT_PUNCT, 'ws': WS, 'ctrl': CTRL,
    'uletter': UL, 'letternum': LETTERNUM, 'udigit': UDIGIT, 'digitlike': DIGITLIKE,
    'numeric': NUMERIC, 'astral': ASTRAL, 'extra': EXTRA,
}
POOL_NAMES = sorted(POOLS)
ALL = [c for n in POOL_NAMES for c in POOLS[n]]


def char_class(c):
    for n in POOL_NAMES:
        if c in POOLS[n]:
            return n
    return 'other'


def alphabet(rng, lo=1, hi=8, force_pool=None):
    """A small alphabet drawn from a few pools; returns (chars, pools used)."""
    k = rng.randint(lo, hi)
    pools = [force_pool] if force_pool else []
    npools = rng.choice([1, 1, 2, 2, 3, 4])
    while len(pools) < npools:
        pools.append(rng.choice(POOL_NAMES + ['letters', 'digits', 'punct', 'punct']))
    chars = []
    if force_pool:
        chars.append(rng.choice(POOLS[force_pool]))
    while len(chars) < k:
        chars.append(rng.choice(POOLS[rng.choice(pools)]))
    return chars, sorted(set(pools))


def rstr(rng, alph, lo=0, hi=7):
    return ''.join(rng.choice(alph) for _ in range(rng.randint(lo, hi)))


def structured(rng, alph):
    """Strings with a shared shape (so rexpy merges them): <word><sep><number> etc."""
    sep = rng.choice(alph)
    a = rstr(rng, LETTERS, 1, 3)
    b = rstr(rng, DIGITS, 1, 3)
    parts = [a, sep, b]
    if rng.random() < 0.3:
        parts += [sep, rstr(rng, alph, 0, 2)]
    return ''.join(parts)


def multiset(rng, n=None, alph=None, hi=7):
    """A list of example strings (with natural repeats)."""
    if alph is None:
        alph, _ = alphabet(rng)
    if n is None:
        n = rng.choice([1, 2, 3, 5, 8, 12, 25, 40, 60])
    mode = rng.random()
    out = []
    for _ in range(n):
        if mode < 0.25 and rng.random() < 0.7:
            out.append(structured(rng, alph))
        else:
            out.append(rstr(rng, alph, 0, hi))
    if n > 1 and rng.random() < 0.3:     # deliberate repeats
        for _ in range(rng.randint(1, 3)):
            out.append(rng.choice(out))
    return out


# Text that reads as regular-expression (or SQL/escape) syntax when it appears as a literal: whatever writes
# it into an expression has to keep it literal.
LOOKALIKES = ['a{3}', 'x{2,3}y', '${1}', '{3}a', 'a+', 'a*b', 'a?', '(?:x)', '(a)', '[a-z]', '[^a]', 'a|b', '^a$', 'a.b', '.*',
              '\\d', '\\d+', 'a\\wb', 'x\\bz', 'lit\\n', '\\\\srv\\dir', 'C:\\data\\a.txt', 'C:\\data\\b.txt', 'C:\\dir\\d1',
              '25$', '25$ off', 'US$', 'US$5', '$', '$$', 'a$b', '%d', '100%', 'a_b', "it's", '\\', '\\Q', 'a\\E']


def lookalikes(rng):
    """A multiset built from a few look-alike strings, each constant across its repeats (so that an extractor has
    to write them out literally), optionally next to ordinary strings of another shape."""
    k = rng.choice([1, 1, 2, 3])
    if rng.random() < 0.3:
        fam = rng.choice([['C:\\data\\a.txt', 'C:\\data\\b.txt', 'C:\\data\\q.txt'], ['25$', '25$ off', '7$', '30$ off'],
                          ['a{3}', 'a{3}', 'b{3}'], ['US$', 'US$5', 'US$77']])
        out = [x for x in fam for _ in range(rng.randint(1, 3))]
    else:
        out = [x for x in rng.sample(LOOKALIKES, k) for _ in range(rng.randint(1, 4))]
    if rng.random() < 0.4:
        out += [rstr(rng, LETTERS + DIGITS, 1, 5) for _ in range(rng.randint(1, 6))]
    rng.shuffle(out)
    return out


_WORDS = ['alpha', 'beta', 'Gamma', 'x9', 'rate', 'naïve', '日本', 'to', 'and', 'the', 'v1.2', 'id=7', 'OK', '42', 'a-b']


def longtext(rng, nwords=None, newline=True):
    """Free text with far more than 100 runs of character classes (rexpy's internal limit for describing a string run
    by run), optionally holding line feeds."""
    n = nwords or rng.choice([55, 60, 80, 120])
    ws = [rng.choice(_WORDS) for _ in range(n)]
    seps = [' '] * (n - 1)
    if newline and n > 2:
        for k in rng.sample(range(n - 1), rng.choice([1, 1, 2, 3])):
            seps[k] = rng.choice(['\n', '\n', ' \n', '\r\n', '\n\n'])
    return ''.join(w + sp for w, sp in zip(ws, seps + ['']))


def longtexts(rng):
    """A few distinct long texts (two or more are needed before an extractor summarises instead of quoting), some with
    line feeds, next to ordinary short strings."""
    out = [longtext(rng, newline=rng.random() < 0.7) for _ in range(rng.choice([2, 2, 3]))]
    if not any('\n' in x for x in out):
        out[0] = longtext(rng, newline=True)
    out += [rstr(rng, LETTERS + DIGITS, 1, 5) for _ in range(rng.randint(0, 4))]
    out += [rng.choice(out) for _ in range(rng.randint(0, 2))]
    rng.shuffle(out)
    return out


# Expression lists whose later members use back-references / group conditionals, with values that the list as a whole
# matches (each decided by one particular member) and values it does not.  Each expression is a pattern of its own: group
# numbers do not carry over from one member to the next.
BACKREF_FAMILIES = [
    {'rex': ['^(id) \\d+$', '^([A-Za-z]{2})-\\1$'], 'match': ['id 7', 'id 42', 'GB-GB', 'fr-fr'], 'nomatch': ['GB-FR', 'id x']},
    {'rex': ['^(#)\\d$', '^(<)?\\w+(?(1)>)$'], 'match': ['#5', '<abc>', 'abc', 'x'], 'nomatch': ['<abc', '#55 ']},
    {'rex': ['^(a)b$', '^(.)\\1$'], 'match': ['ab', 'zz', 'aa', '77'], 'nomatch': ['ba', 'abc']},
    {'rex': ['^(x)?q$', '^(.)(.)\\2\\1$'], 'match': ['q', 'xq', 'abba', 'xyyx'], 'nomatch': ['abab', 'qq ']},
    {'rex': ['^(?P<c>.)(?P=c)$', '^(id) \\d$'], 'match': ['aa', 'id 7', '--'], 'nomatch': ['ab', 'id 77']},
    {'rex': ['^#\\d$', '^(.)(.)\\1\\2$', '^(.)\\1$'], 'match': ['#5', 'abab', 'zz'], 'nomatch': ['abba', '#']},
]
BACKREF_REXES = [f['rex'] for f in BACKREF_FAMILIES]
BACKREF_VALUES = sorted(set(v for f in BACKREF_FAMILIES for v in f['match'] + f['nomatch']))


def backref_values(rng, n):
    f = rng.choice(BACKREF_FAMILIES)
    pool = list(f['match']) if rng.random() < 0.75 else f['match'] + f['nomatch'][:1]
    return [rng.choice(pool) for _ in range(n)]


def backref_family_for(values):
    vs = set(v for v in values if v is not None)
    for f in BACKREF_FAMILIES:
        if vs and vs <= set(f['match'] + f['nomatch']):
            return f
    return None


def runlengths(rng):
    """Values made of the SAME characters in the same order, differing only in how often each is repeated (three or more
    different counts at one position), in ascending, descending or mixed order, next to a few ordinary strings."""
    chars = rng.choice([['0', 'A'], ['a', 'b'], ['x', 'y', 'z'], ['1', '0'], ['Q', '7'], ['-', 'a']])
    counts = rng.sample(range(1, 7), rng.choice([3, 4, 5]))
    pos = rng.randrange(len(chars))
    out = []
    for c in counts:
        out.append(''.join(ch * (c if k == pos else 1) for k, ch in enumerate(chars)))
    order = rng.choice(['asc', 'desc', 'mixed'])
    out.sort()
    if order == 'desc':
        out.reverse()
    elif order == 'mixed':
        rng.shuffle(out)
    out += [rng.choice(out) for _ in range(rng.randint(0, 3))]
    if rng.random() < 0.3:
        out += [rstr(rng, LETTERS + DIGITS, 1, 4) + '!' for _ in range(rng.randint(1, 3))]
    return out


def manygroups(rng):
    """Two or more records of one shape with 26-45 short mixed-class tokens joined by one punctuation mark: fewer than 100
    coarse runs, but well over 100 once every token is split into its letter-case and digit runs."""
    n = rng.choice([26, 30, 34, 40, 45, 25])
    sep = rng.choice(['-', '/', '.', ' '])

    def tok():
        return rng.choice('ABCXYZ') + rng.choice('abcxyz') + rng.choice('0123456789')
    recs = [sep.join(tok() for _ in range(n)) for _ in range(rng.choice([2, 2, 3]))]
    recs += [rstr(rng, LETTERS, 1, 4) for _ in range(rng.randint(0, 3))]
    rng.shuffle(recs)
    return recs


def tails(rng):
    """Records of one shape in which two different parts each have an optional, open-ended tail of a repeated character,
    and no record has both tails (so an expression demanding both matches nothing)."""
    a, b, c, d = rng.sample('abcdxyz', 4)
    sep = rng.choice('-/. :')
    out = [a + b * rng.randint(3, 6) + sep + c, a + sep + c + d * rng.randint(3, 6)]
    if rng.random() < 0.5:
        out.append(a + sep + c)
    out += [rng.choice(out) for _ in range(rng.randint(0, 2))]
    rng.shuffle(out)
    return out


def narrowing(rng):
    """Same-length codes over a narrow alphabet (a-f), a few all-digit ones and one or two over a wider alphabet: which class
    an extractor settles on depends on which of them it has looked at so far."""
    L = rng.choice([2, 2, 3])
    out = set()
    while len(out) < rng.choice([6, 8, 10]):
        out.add(''.join(rng.choice('abcdef') for _ in range(L)))
    out = sorted(out)
    out += [''.join(rng.choice('0123456789') for _ in range(L)) for _ in range(rng.randint(1, 2))]
    out += [''.join(rng.choice('xyzw') for _ in range(L)) for _ in range(rng.randint(1, 2))]
    rng.shuffle(out)
    return out

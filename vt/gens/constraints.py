"""Constraint sets derived from the data of a frame spec: for each kind the value on, just
inside and just outside every boundary of the data, every precision, all sign classes, type
scalars and lists, null-valued constraints, missing fields."""
import datetime

from vt.gens import frames as F
from vt.gens import strings as S
from vt.oracles import constraint_semantics as CS

PRECISIONS = [None, None, 'closed', 'open', 'fuzzy']
TYPES = ['bool', 'int', 'real', 'date', 'string']


def _around(rng, x, eps_choices=(0.01, 0.5)):
    """Candidate bounds around a data extreme x."""
    c = [x]
    if isinstance(x, bool):
        x = int(x)
    if isinstance(x, int):
        c += [x - 1, x + 1, x - rng.randint(2, 50), x + rng.randint(2, 50)]
    else:
        if x in (float('inf'), float('-inf')):
            return [x, -x, 0.0, 1e308, -1e308]
        d = abs(x) * 1e-6 if x else 1e-9
        c += [x - d, x + d, x - abs(x) * 0.3 - 1, x + abs(x) * 0.3 + 1]
    for e in eps_choices:
        for f in (e / 2, 2 * e, e):
            for sgn in (1, -1):
                try:
                    c.append(x / (1 + sgn * f) if f != 1 else x)
                    c.append(x * (1 + sgn * f))
                except (OverflowError, ZeroDivisionError):
                    pass
    c += [0, -x if not isinstance(x, bool) else 0]
    return c


def _fmt_dt(dt, ns, gran, tz=False):
    if gran == 'date':
        s = '%04d-%02d-%02d' % (dt.year, dt.month, dt.day)
    elif gran == 'second':
        s = '%04d-%02d-%02d %02d:%02d:%02d' % (dt.year, dt.month, dt.day, dt.hour, dt.minute, dt.second)
    else:
        s = '%04d-%02d-%02d %02d:%02d:%02d.%06d' % (dt.year, dt.month, dt.day, dt.hour, dt.minute, dt.second, dt.microsecond)
    if tz and gran != 'date':
        s += '+00:00'
    return s


def field_constraints(rng, col, rex_pool=None):
    """{kind: value} for one column (kinds chosen at random, values boundary-derived)."""
    fam = F.FAMILY[col['kind']]
    out = {}
    r = rng.random
    if r() < 0.6:
        t = CS.tdda_type(col) or fam
        k = r()
        if k < 0.4:
            out['type'] = t
        elif k < 0.6:
            # a scalar "date" type next to non-date bounds is not a well-formed set
            out['type'] = rng.choice([x for x in TYPES if x != 'date' or fam == 'date'])
        elif k < 0.85:
            out['type'] = rng.sample(TYPES, rng.randint(1, 3))
        else:
            out['type'] = [t, rng.choice(TYPES)]
    if fam in ('int', 'real', 'bool'):
        nums = CS.nonnull_numbers(col)
        lo, hi = (min(nums), max(nums)) if nums else (0, 0)
        for kind, ext in (('min', lo), ('max', hi)):
            if r() < 0.7:
                b = rng.choice(_around(rng, ext))
                if nums and r() < 0.2:
                    b = rng.choice(nums)        # a bound ON some record, with other records possibly beyond it
                if isinstance(b, float) and b != b:
                    b = 0.0
                if isinstance(b, float) and b in (float('inf'), float('-inf')):
                    b = 1e308 if b > 0 else -1e308      # keep cases JSON-replayable
                p = rng.choice(PRECISIONS)
                out[kind] = b if p is None else {'value': b, 'precision': p}
        if r() < 0.5:
            out['sign'] = rng.choice(CS.SIGNS)
    elif fam == 'date':
        ds = CS.nonnull_dates(col)
        out['type'] = 'date' if r() < 0.9 else out.get('type', 'date')
        if out['type'] != 'date':
            out['type'] = 'date'
        for kind, ext in (('min', min(ds) if ds else None), ('max', max(ds) if ds else None)):
            if r() < 0.7:
                base = ext[0] if ext else datetime.datetime(2000, 1, 1)
                try:
                    base = base + rng.choice([datetime.timedelta(0), datetime.timedelta(seconds=1), -datetime.timedelta(seconds=1),
                                              datetime.timedelta(microseconds=1), -datetime.timedelta(microseconds=1),
                                              datetime.timedelta(days=1), -datetime.timedelta(days=1),
                                              datetime.timedelta(days=400), -datetime.timedelta(days=400)])
                except OverflowError:
                    pass
                gran = rng.choice(['date', 'second', 'micro'])
                if ds and r() < 0.25:
                    base, gran = rng.choice(ds)[0], 'micro'      # a bound ON some record
                s = _fmt_dt(base, 0, gran, tz=col['kind'] in F.TZ_KINDS)
                p = rng.choice([None, None, None, 'closed', 'fuzzy', 'open'])
                out[kind] = s if p is None else {'value': s, 'precision': p}
    else:
        ss = CS.nonnull_strings(col)
        lens = [len(s) for s in ss] or [0]
        if r() < 0.6:
            out['min_length'] = max(0, min(lens) + rng.choice([0, 0, -1, 1, 2]))
        if r() < 0.6:
            out['max_length'] = max(0, max(lens) + rng.choice([0, 0, -1, 1, 5]))
        if r() < 0.5:
            vals = sorted(set(ss))
            k = r()
            if k < 0.4:
                av = vals
            elif k < 0.7 and vals:
                av = [v for v in vals if v != rng.choice(vals)]
            else:
                av = vals + ['extra']
            out['allowed_values'] = av
        if ss and col['kind'] == 'str_obj' and r() < 0.15:     # (an unordered categorical has no min or max in pandas itself)
            # limits on a string field (never discovered, but the format allows them): closed = may be attained, open = may not
            for kind in ('min', 'max'):
                if r() < 0.6:
                    ext = min(ss) if kind == 'min' else max(ss)
                    b = rng.choice([ext, ext, ext + 'a', ext[:-1] if ext else ext, rng.choice(ss)])
                    out[kind] = {'value': b, 'precision': rng.choice(['closed', 'open'])}
        fam_ = S.backref_family_for(ss)
        if fam_ and r() < 0.8:
            # several expressions, the later ones with back-references or group conditionals: each expression is a
            # pattern of its own (group numbers do not carry over from one to the next)
            out['rex'] = list(fam_['rex'])
            if r() < 0.25:
                out['rex'] = out['rex'][::-1]
        elif r() < 0.4:
            out['rex'] = rng.choice(rex_pool or [['^.*$'], ['^[a-zA-Z0-9]*$'], ['^\\d+$', '^[a-z]+$'], ['^$'], [''], ['^\\d+$', ''],
                                                 ['^[^\\d]*$'], ['^.{0,3}$', '^.{5,}$']])
    if fam != 'string' and r() < 0.12:
        # allowed_values on a non-string field: only the all-null case has a documented verdict
        out['allowed_values'] = rng.choice([[], [1, 2], ['a'], [0.5]])
        if fam in ('int', 'real') and r() < 0.6:
            nums_ = [v for v in CS.nonnull_numbers(col) if isinstance(v, (int, float)) and not isinstance(v, bool) and v == v
                     and abs(v) < 2 ** 53]
            if nums_:
                keep = [v for v in sorted(set(nums_)) if r() < 0.6]
                out['allowed_values'] = keep or [sorted(set(nums_))[0]]       # some of the column's own values allowed, the rest not
    if r() < 0.5:
        nn = sum(1 for v in col['values'] if v is None)
        out['max_nulls'] = max(0, nn + rng.choice([0, 0, -1, 1]))
    if r() < 0.4:
        out['no_duplicates'] = rng.choice([True, True, True, False])
    return out


NULL_FORMS = {'type': None, 'min': None, 'max': None, 'min_length': None, 'max_length': None, 'sign': None,
              'max_nulls': None, 'no_duplicates': None, 'allowed_values': None, 'rex': None}


def constraint_set(rng, spec, missing_field=False):
    fields = {}
    for col in spec['cols']:
        fc = field_constraints(rng, col)
        if fc and rng.random() < 0.5:
            # the order in which a field's constraint kinds are written is not part of their meaning
            items = list(fc.items())
            rng.shuffle(items)
            fc = dict(items)
        if fc:
            fields[col['name']] = fc
    if missing_field:
        fields['no_such_field_%d' % rng.randrange(100)] = {'type': 'int', 'min': 0, 'max_nulls': 0}
    if len(fields) > 1 and rng.random() < 0.3:
        items = list(fields.items())
        rng.shuffle(items)              # ... nor is the order of the fields (it need not be the frame's column order)
        fields = dict(items)
    return {'fields': fields}


def with_nulls(rng, cset, spec):
    """The same set plus a few null-valued constraints of kinds not already present."""
    import copy
    c2 = copy.deepcopy(cset)
    added = []
    for name, fc in c2['fields'].items():
        kinds = [k for k in NULL_FORMS if k not in fc]
        rng.shuffle(kinds)
        for k in kinds[:rng.randint(1, 3)]:
            if k in ('min', 'max') and rng.random() < 0.3:
                fc[k] = {'value': None, 'precision': rng.choice(['closed', 'open', 'fuzzy'])}
            else:
                fc[k] = None
            added.append((name, k))
    return c2, added

"""SQLite table generator.  A table spec = {'table', 'cols': [{'name','sqltype','kind','values'}], 'nrows'}
where `kind` is the equivalent frame kind so that the same reference semantics apply."""
import sqlite3

from vt.gens import frames as F
from vt.gens import strings as S

SQLTYPES = {'integer': 'int64', 'bigint': 'int64', 'real': 'float64', 'double': 'float64', 'text': 'str_obj',
            'varchar': 'str_obj', 'boolean': 'boolean', 'datetime': 'dt_s',
            # other spellings of the same six families that tdda's type table knows
            'tinyint': 'int64', 'smallint': 'int64', 'int': 'int64', 'INTEGER': 'int64', 'float': 'float64', 'numeric': 'float64',
            'bool': 'boolean', 'char': 'str_obj', 'nvarchar': 'str_obj', 'TEXT': 'str_obj', 'timestamp': 'dt_s'}
COLNAMES = ['a', 'b c', 'näme', '日本', 'c7', 'order', 'select', 'Mixed', 'x.y', 'tab\tname', "q'r", 'under_score']
HOSTILE_TEXT = ["it's", '"quoted"', 'back\\slash', '100%', 'a_b', '', 'naïve', '日本語', "''", 'x\ny', ' lead', 'trail ',
                "a'b\"c", '\\', '%', '_', 'null', 'NULL', "';--", 'tab\tx', 'é', 'a' * 40]


BIG_WHOLE = [2 ** 53 + 1, -(2 ** 53 + 1), 2 ** 53 + 3, 2 ** 62 + 1, -(2 ** 60 + 7), 10 ** 17 + 1]


def gen_table(rng, ncols=None, nrows=None, allow_nul=False, allow_pk=False, allow_big_whole=False):
    if nrows is None:
        nrows = rng.choice([0, 1, 2, 3, 5, 21, 30])
    cols = []
    used = set()
    for _ in range(ncols or rng.randint(1, 4)):
        sqltype = rng.choice(sorted(SQLTYPES))
        kind = SQLTYPES[sqltype]
        name = rng.choice(COLNAMES)
        while name.lower() in used:
            name += rng.choice('xyz2')
        used.add(name.lower())
        col = F.gen_column(rng, kind, nrows, name=name)
        if kind == 'str_obj' and nrows and rng.random() < 0.12:
            base = S.lookalikes(rng)
            col['values'] = [None if v is None else base[i % len(base)] for i, v in enumerate(col['values'])]
        elif kind == 'str_obj' and rng.random() < 0.5:
            pool = rng.sample(HOSTILE_TEXT, rng.randint(1, len(HOSTILE_TEXT)))
            col['values'] = [None if v is None else rng.choice(pool) for v in col['values']]
        if kind == 'str_obj' and (not allow_nul or rng.random() < 0.85):
            col['values'] = [None if v is None else v.replace('\x00', '\x01') for v in col['values']]
        elif kind == 'str_obj' and nrows >= 22 and rng.random() < 0.5:
            # many distinct values, some with an embedded NUL (SQL's own LENGTH() stops counting there)
            col['values'] = [None if v is None else ('v%02d' % i + ('\x00tail%d' % i if i % 5 == 0 else '')) for i, v in enumerate(col['values'])]
        if kind == 'float64':
            col['values'] = [v if v not in ('inf', '-inf', 'nan') else 1e300 for v in col['values']]
        if allow_big_whole and sqltype == 'numeric' and nrows and rng.random() < 0.4:
            # a column declared NUMERIC keeps whole numbers as exact integers: some beyond what a binary64 float can hold
            picks = rng.sample(BIG_WHOLE, rng.randint(1, 3))
            col['values'] = [v if v is None or rng.random() < 0.6 else rng.choice(picks) for v in col['values']]
        if kind == 'dt_s':
            col['values'] = [None if v is None else v[:19] for v in col['values']]
            col['values'] = [v if v is None or 1000 <= int(v[:4]) <= 9999 else '2000' + v[4:] for v in col['values']]
        col['sqltype'] = sqltype
        cols.append(col)
    if len(cols) >= 2 and rng.random() < 0.1:
        # two columns whose names differ only in the case of a NON-ASCII letter: distinct, legal names in SQLite
        # (which folds ASCII letters only)
        a, b = rng.choice([('É', 'é'), ('Ω', 'ω'), ('Ж', 'ж'), ('colÄ', 'colä'), ('ß1', 'ẞ1')])
        i, j = rng.sample(range(len(cols)), 2)
        cols[i]['name'], cols[j]['name'] = a, b
    spec = {'table': 't_%d' % rng.randrange(1000), 'cols': cols, 'nrows': nrows}
    if allow_pk and rng.random() < 0.25 and 'pkid' not in used:
        # table constraints in the DDL: a primary key over one column, or over two (only the PAIR is unique then)
        ids = list(range(nrows))
        rng.shuffle(ids)
        cols.append({'name': 'pkid', 'kind': 'int64', 'sqltype': 'integer', 'values': ids, 'nulls': 'none'})
        other = rng.choice(cols[:-1])['name']
        spec['primary_key'] = rng.choice([['pkid'], [other, 'pkid'], ['pkid', other]])
    return spec


def q(name):
    return '"%s"' % name.replace('"', '""')


def sql_value(col, v):
    if v is None:
        return None
    k = col['kind']
    if k == 'boolean':
        return 1 if v else 0
    if k == 'dt_s':
        return v.replace('T', ' ')
    if k == 'float64':
        return v if isinstance(v, int) and abs(v) > 2 ** 53 else float(v)
    return v


def build_db(spec, path=':memory:'):
    """Returns a tdda DBConnector around a fresh SQLite database holding the table."""
    from tdda.constraints.db.drivers import DBConnector, regex_matcher
    conn = sqlite3.connect(path)
    conn.create_function('regexp', 2, regex_matcher)
    cur = conn.cursor()
    decl = ', '.join('%s %s' % (q(c['name']), c['sqltype']) for c in spec['cols'])
    if spec.get('primary_key'):
        decl += ', PRIMARY KEY (%s)' % ', '.join(q(n) for n in spec['primary_key'])
    cur.execute('CREATE TABLE %s (%s)' % (spec['table'], decl))
    for i in range(spec['nrows']):
        row = [sql_value(c, c['values'][i]) for c in spec['cols']]
        cur.execute('INSERT INTO %s VALUES (%s)' % (spec['table'], ', '.join('?' * len(row))), row)
    conn.commit()
    return DBConnector(conn, None), conn

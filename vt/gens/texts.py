"""(actual, reference) line-sequence pairs with near-miss mutations and option sets."""
import re

WORDS = ['alpha', 'beta', 'gamma', 'Ünï', '日本', 'x', 'rate', 'v1.2', 'a-b', 'c_d', 'IGN', 'RM', 'skip']
SEPS = ['\n', '\n', '\n', '\r\n', '\r', '\x0b', '\x0c', ' ', '\x85', '\x1c']
PATTERNS = [r'\d+', r'[a-c]+\d', r'v\d+\.\d+', r'0x[0-9a-f]+', r'\d{2}:\d{2}', r'id=\w+',
            r'^L\d+ .*$', r'^.*rate.*$',
            # shapes of expression: a top-level alternation of groups, nested groups, a group that is the whole pattern
            r'(alpha)|(beta)', r'(\d+)|(x)', r'(id=(\w)+)', r'(0x)?[0-9a-f]{2,}']
HALF_PATTERNS = [r'^L\d+', r'\d+$', r'\d*']
SUBSTRS = ['IGN', 'skip', 'Ünï']
REMOVES = ['RM', 'gamma', '#']
PREPROCESS = {
    'upper': lambda ls: [l.upper() for l in ls],
    'dropblank': lambda ls: [l for l in ls if l.strip()],
    'digits2hash': lambda ls: [re.sub(r'\d', '#', l) for l in ls],
    'first3': lambda ls: ls[:3],
}


def line(rng, i):
    k = rng.random()
    toks = ['L%d' % i]
    for _ in range(rng.randint(0, 3)):
        r = rng.random()
        if r < 0.35:
            toks.append(rng.choice(WORDS))
        elif r < 0.6:
            toks.append(str(rng.randrange(1000)))
        elif r < 0.7:
            toks.append('0x%x' % rng.randrange(4096))
        elif r < 0.8:
            toks.append('%02d:%02d' % (rng.randrange(24), rng.randrange(60)))
        elif r < 0.9:
            toks.append('id=%s' % rng.choice(['a1', 'zz', 'Q_9']))
        else:
            toks.append(rng.choice(['', '  ', '\t', '(', '[x]', 'a|b', '*', '$1', '\\d']))
    s = ' '.join(toks)
    if k < 0.08:
        s = ''
    elif k < 0.16:
        s = rng.choice(['  ', '\t', ' ']) + s
    elif k < 0.24:
        s = s + rng.choice(['  ', '\t', ' '])
    return s


def mutate_line(rng, s):
    """One near-miss edit of a line; returns (new, kind)."""
    k = rng.random()
    nums = list(re.finditer(r'\d+', s))
    if k < 0.35 and nums:
        m = rng.choice(nums)
        new = str(rng.randrange(10 ** rng.randint(1, 4)))
        return s[:m.start()] + new + s[m.end():], 'number'
    if k < 0.5:
        return ' ' * rng.randint(1, 2) + s, 'lead-ws'
    if k < 0.62:
        return s + rng.choice([' ', '\t', '  ']), 'trail-ws'
    if k < 0.75 and s:
        i = rng.randrange(len(s))
        return s[:i] + rng.choice('xyZ9é') + s[i + 1:], 'char'
    if k < 0.85:
        return s + ' ' + rng.choice(WORDS), 'word-added'
    if k < 0.92 and s:
        i = rng.randrange(len(s))
        return s[:i] + s[i + 1:], 'char-deleted'
    return s.swapcase() if s.swapcase() != s else s + 'q', 'case'


def gen_pair(rng):
    n = rng.choice([0, 1, 2, 3, 4, 6, 9])
    ref = [line(rng, i) for i in range(n)]
    act = list(ref)
    muts = []
    nm = rng.choice([0, 0, 1, 1, 1, 2, 3])
    for _ in range(nm):
        k = rng.random()
        if k < 0.55 and act:
            i = rng.randrange(len(act))
            act[i], kind = mutate_line(rng, act[i])
            muts.append(kind)
        elif k < 0.65:
            act.insert(rng.randrange(len(act) + 1), line(rng, 90 + len(muts)))
            muts.append('insert')
        elif k < 0.75 and act:
            del act[rng.randrange(len(act))]
            muts.append('delete')
        elif k < 0.9 and len(act) >= 2:
            i, j = rng.sample(range(len(act)), 2)
            act[i], act[j] = act[j], act[i]
            muts.append('swap')
        elif k < 0.93:
            act.append('')
            muts.append('trailing-empty')
        elif k < 0.96:
            act.append(rng.choice(['  ', '\t', ' ', ' \t ']))       # a last line holding only blanks is still a line
            muts.append('trailing-blank')
        else:
            act.insert(rng.randrange(len(act) + 1), 'RM optional %d' % rng.randrange(10))
            muts.append('insert-removable')
    if rng.random() < 0.04 and n >= 1:
        # repeated lines among the differing ones: a true permutation has the same lines the same NUMBER of times
        a, b = 'dup %d alpha' % rng.randrange(100), 'dup %d beta' % rng.randrange(100)
        k = rng.randrange(len(ref) + 1)
        if rng.random() < 0.5:
            rb, ab = [a, b, b], [b, a, a]          # same set of lines, different counts: not a permutation
            muts.append('dup-not-a-permutation')
        else:
            rb, ab = [a, b, b], [b, b, a]          # a permutation with a repeated line
            muts.append('dup-permutation')
        ref[k:k] = rb
        act[min(k, len(act)):min(k, len(act))] = ab
    if muts and rng.random() < 0.1:
        act, ref = ref, act              # the same differences, with the reference as the richer side
        muts = ['swapped-sides'] + muts
    return act, ref, muts


def gen_opts(rng, subset=None):
    """subset: 7-bit mask choosing which options are in force."""
    if subset is None:
        subset = rng.randrange(128)
    o = {}
    if subset & 1:
        o['lstrip'] = True
    if subset & 2:
        o['rstrip'] = True
    if subset & 4:
        o['ignore_substrings'] = rng.sample(SUBSTRS, rng.randint(1, 2))
    if subset & 8:
        pats = rng.sample(PATTERNS, rng.randint(1, 2))
        if rng.random() < 0.05:
            pats.append(rng.choice(HALF_PATTERNS))
        o['ignore_patterns'] = pats
    if subset & 16:
        o['remove_lines'] = rng.sample(REMOVES, rng.randint(1, 2))
    if subset & 32:
        o['preprocess'] = rng.choice(sorted(PREPROCESS))
    if subset & 64:
        o['max_permutation_cases'] = rng.choice([1, 2, 3])
    return o, subset


def to_text(rng, lines):
    """Assemble lines into one text with a chosen line ending and final-newline flavour."""
    sep = rng.choice(SEPS) if rng.random() < 0.3 else '\n'
    clean = [re.sub('[\n\r\x0b\x0c\x1c\x1d\x1e\x85  ]', ' ', l) for l in lines]
    t = sep.join(clean)
    if clean and rng.random() < 0.7:
        t += sep
    return t


def real_opts(o):
    """Options dict with the preprocess name resolved to the function (for tdda and the oracle)."""
    r = dict(o)
    if 'preprocess' in r:
        r['preprocess'] = PREPROCESS[r['preprocess']]
    return r

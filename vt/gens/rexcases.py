"""Case generator + executor shared by the rexpy properties (C03 C13 C14 C18)."""
import contextlib
import io

from vt.gens import strings as S

DIALECTS = ['perl', 'portable', 'grep']
FORMS = ['list', 'dict', 'series', 'serieslist']
SERIES_FORMS = ('series', 'serieslist', 'catseries')
EXTRAS = [None, None, None, '_', '-', '.', '_-', '_.-', '.-']


def gen_case(rng, i=None, pruning=False, allow_none=True):
    """i (optional): index used for directed filling of the class matrix."""
    alph, pools = S.alphabet(rng)
    if rng.random() < 0.15:
        alph = S.ALL
        pools = ['all']
    xs = S.multiset(rng, alph=alph)
    if rng.random() < 0.06:
        xs = S.lookalikes(rng)
        pools = ['lookalike']
    if rng.random() < 0.03:
        xs = S.longtexts(rng)
        pools = ['longtext']
    elif rng.random() < 0.03:
        xs = S.runlengths(rng)
        pools = ['runlengths']
    elif rng.random() < 0.02:
        xs = S.manygroups(rng)
        pools = ['manygroups']
    elif rng.random() < 0.03:
        xs = S.tails(rng)
        pools = ['tails']
    elif rng.random() < 0.04:
        xs = S.narrowing(rng)
        pools = ['narrowing']
    odd = rng.random() < 0.08
    if odd:
        # "odd one out": many strings of one class plus one or two look-alikes of a neighbouring class
        # (ASCII digits vs other decimal digits vs digit-likes; ASCII letters vs other letters), which a
        # sampled first pass is likely to leave out
        major, minor = rng.choice([(S.DIGITS, S.UDIGIT), (S.DIGITS, S.DIGITLIKE), (S.UDIGIT, S.DIGITS), (S.LETTERS, S.UL),
                                   (S.LETTERS, S.LETTERNUM), (S.DIGITS, S.LETTERS), (list('abc'), list('_-.'))])
        xs = [S.rstr(rng, major, 1, 5) for _ in range(rng.choice([8, 13, 20]))]
        for _ in range(rng.randint(1, 2)):
            xs.insert(rng.randrange(len(xs) + 1), S.rstr(rng, minor, 1, 4))
        pools = ['odd-one-out']
    if allow_none and rng.random() < 0.1:
        xs.insert(rng.randrange(len(xs) + 1), None)
    if i is not None and i < 24:
        dialect = DIALECTS[i % 3]
        form = FORMS[(i // 3) % 4]
        sampled = (i // 12) % 2 == 1
    else:
        dialect = rng.choice(DIALECTS)
        form = rng.choice(['list', 'list', 'list', 'dict', 'dict', 'series', 'serieslist', 'catseries'])
        sampled = rng.random() < 0.45 or odd or pools == ['narrowing']
    kw = dict(tag=rng.random() < 0.3, strip=rng.random() < 0.2, remove_empties=rng.random() < 0.3,
              extra_letters=rng.choice(EXTRAS), variableLengthFrags=rng.random() < 0.3 or pools == ['tails'], dialect=dialect)
    if rng.random() < 0.08:
        kw['verbose'] = rng.choice([1, 2])        # the documented verbosity levels only add printed diagnostics
    size = None
    seed = None
    if sampled:
        size = dict(do_all=rng.choice([1, 2, 5, 100]), do_all_exceptions=rng.choice([1, 2, 5, 4000]),
                    n_per_length=rng.choice([1, 2, 64]), max_sampled_attempts=rng.choice([1, 2, 3]))
        if rng.random() < 0.4:
            size['max_strings_in_group'] = rng.choice([1, 2, 3, 10])
        if rng.random() < 0.3:
            size['max_punc_in_group'] = rng.choice([1, 2, 5])
        seed = rng.choice([None, 0, 1, 2, 12345])
        if odd or pools == ['narrowing']:
            size['do_all'] = rng.choice([2, 4, 5])
            size['do_all_exceptions'] = rng.choice([2, 4, 5])
        if len(xs) < 6:
            xs = xs + S.multiset(rng, n=12, alph=alph)
    elif rng.random() < 0.1:
        size = False if rng.random() < 0.5 else dict(use_sampling=False)
    elif rng.random() < 0.15:
        # group-size settings alone (no sampling): do_all stays at its default
        size = dict(max_strings_in_group=rng.choice([1, 2, 3]), max_punc_in_group=rng.choice([1, 2, 5]))
    if pruning:
        if rng.random() < 0.6:
            kw['max_patterns'] = rng.choice([1, 2, 3])
        if rng.random() < 0.6:
            kw['min_strings_per_pattern'] = rng.choice([1, 2, 3])
    if rng.random() < 0.06 and all(x is not None and not any(ch in x for ch in '\n\r\x0b\x0c\x1c\x1d\x1e\x85\u2028\u2029') and x == x.strip()
                                   for x in xs):
        form = rng.choice(['streams-list', 'streams-list', 'streams-file'])
    if form in SERIES_FORMS:
        # pdextract takes only a seed; options are not expressible
        kw = dict(tag=False, strip=False, remove_empties=False, extra_letters=None,
                  variableLengthFrags=False, dialect='portable')
        size = None
        # pandas' object hashtable (Series.unique) compares strings as C strings and so
        # merges strings that differ only after an embedded NUL: not tdda's doing
        xs = [x.replace('\x00', '\x01') if x is not None else x for x in xs]
    case = {'xs': xs, 'form': form, 'kw': kw, 'size': size, 'seed': seed, 'pools': pools,
            'prng': rng.randrange(2 ** 31)}
    if rng.random() < 0.35:
        # frequency dictionaries may carry entries with count 0: strings that were NOT supplied
        present = set(x for x in xs if x is not None)
        zs = []
        for _ in range(rng.randint(1, 3)):
            z = S.rstr(rng, alph, 1, 6) + rng.choice(['', 'Z', '9', '-'])
            if z not in present and z.strip() not in present:
                zs.append(z)
        case['zero_count'] = zs
    return case


def build_input(case, order=None):
    """Input object for the given form; `order` optionally permutes the list."""
    xs = list(case['xs'])
    if order is not None:
        xs = [xs[j] for j in order]
    form = case['form']
    if form.startswith('streams-'):
        # rexpy_streams(..., skip_header=True): the first line is a header, not an example
        return ['Header line #0 (not data)'] + [x for x in xs if x is not None]
    if form.startswith('extract-'):
        # the module-level extract() entry point; "bytes" = encoded examples together with encoding='utf-8'
        base = build_input(dict(case, form='dict' if form.endswith('dict') else 'list', xs=xs))
        if 'bytes' not in form:
            return base
        if 'sig' in form and not isinstance(base, dict):
            # a many-to-one codec: the same text with and without a byte-order mark is the same example
            return [(b'\xef\xbb\xbf' if k % 3 == 1 else b'') + x.encode('utf-8') for k, x in enumerate(base)]
        if isinstance(base, dict):
            return {k.encode('utf-8'): v for k, v in base.items()}
        return [x.encode('utf-8') for x in base]
    if form == 'list':
        return xs
    if form == 'dict':
        d = {}
        zs = list(case.get('zero_count') or [])
        for z in zs[:1]:
            d[z] = 0                       # one zero-count entry first, the others last
        for x in xs:
            d[x] = d.get(x, 0) + 1
        for z in zs[1:]:
            d.setdefault(z, 0)
        return d
    import numpy as np
    import pandas as pd
    vals = [np.nan if x is None else x for x in xs]
    if form == 'series':
        return pd.Series(vals, dtype=object)
    if form == 'catseries':
        # categorical column whose dtype also declares categories no row holds (as after filtering a frame):
        # the examples are the values present
        present = []
        for x in xs:
            if x is not None and x not in present:
                present.append(x)
        extra = [e for e in ('UNUSED-77/x', 'zz 9', '~') if e not in present]
        return pd.Series(pd.Categorical(vals, categories=present + extra))
    h = len(vals) // 2
    return [pd.Series(vals[:h], dtype=object), pd.Series(vals[h:], dtype=object)]


def make_size(case):
    from tdda.rexpy.rexpy import Size
    sz = case['size']
    if sz is None or sz is False:
        return 0 if sz is False else None
    return Size(**sz)


def run_extractor(case, inp=None, **over):
    """Returns the Extractor (or raises).  Series forms go through pdextract and
    return a plain list of expressions instead."""
    from tdda.rexpy import rexpy
    import random
    if inp is None:
        inp = build_input(case)
    if case.get('prng') is not None:
        random.seed(case['prng'])       # the global PRNG state is part of the case
    kw = dict(case['kw'])
    kw.update(over)
    buf = io.StringIO()
    with contextlib.redirect_stdout(buf):
        if case['form'] in SERIES_FORMS:
            return rexpy.pdextract(inp, seed=case['seed'])
        if case['form'].startswith('streams-'):
            in_path = inp
            if case['form'] == 'streams-file':
                import os
                import tempfile
                fd, in_path = tempfile.mkstemp(suffix='.txt')
                with os.fdopen(fd, 'w', encoding='utf-8', newline='\n') as f:
                    f.write('\n'.join(inp) + '\n')
            try:
                return rexpy.rexpy_streams(in_path, out_path=False, skip_header=True, size=make_size(case), seed=case['seed'], **kw)
            finally:
                if in_path is not inp:
                    os.unlink(in_path)
        if case['form'].startswith('extract-'):
            return rexpy.extract(inp, encoding=('utf-8-sig' if 'sig' in case['form'] else 'utf-8') if 'bytes' in case['form'] else None, as_object=True,
                                 size=make_size(case), seed=case['seed'], **kw)
        return rexpy.Extractor(inp, size=make_size(case), seed=case['seed'], **kw)


def rex_of(x):
    if isinstance(x, list):
        return x
    return list(x.results.rex) if x.results else []


def effective_sampling(case):
    """True when the sampled-attempt machinery can be entered for this input."""
    sz = case['size']
    if not isinstance(sz, dict):
        return False          # (use_sampling=False only changes the DEFAULT of do_all: explicit settings still sample)
    if 'do_all' not in sz:
        return False
    n = len(set(x for x in case['xs'] if x is not None))
    return n > sz['do_all'] and n > sz['do_all_exceptions']

"""Hostile DataFrame generator.  A frame is described by a JSON-safe spec
   {'cols': [{'name', 'kind', 'values': [...]}], 'nrows': n}
so that a witness can be replayed exactly; build_frame(spec) makes the pandas object.

Value encoding inside specs: None = null; floats 'nan'/'inf'/'-inf' as strings; datetimes as
ISO strings (nanosecond digits kept); dates as 'YYYY-MM-DD'.
"""
import datetime
import math

from vt.gens import strings as S

INT_KINDS = ['int8', 'int16', 'int32', 'int64', 'uint8', 'uint16', 'uint32', 'uint64']
NULLABLE_INT = ['Int8', 'Int64', 'UInt64']
FLOAT_KINDS = ['float32', 'float64']
BOOL_KINDS = ['bool', 'objbool', 'boolean']
STR_KINDS = ['str_obj', 'cat']
DT_KINDS = ['dt_s', 'dt_ms', 'dt_us', 'dt_ns']
TZ_KINDS = ['dt_tz_utc', 'dt_tz_dst']
DATE_KINDS = ['dateobj']
EXTRA_KINDS = ['Float64', 'str_pd3', 'string_ext']         # outside C01's "recognised" list
RECOGNISED = INT_KINDS + NULLABLE_INT + FLOAT_KINDS + BOOL_KINDS + STR_KINDS + DT_KINDS + TZ_KINDS + DATE_KINDS
ALL_KINDS = RECOGNISED + EXTRA_KINDS

FAMILY = {}
for _k in INT_KINDS + NULLABLE_INT:
    FAMILY[_k] = 'int'
for _k in FLOAT_KINDS + ['Float64']:
    FAMILY[_k] = 'real'
for _k in BOOL_KINDS:
    FAMILY[_k] = 'bool'
for _k in STR_KINDS + ['str_pd3', 'string_ext']:
    FAMILY[_k] = 'string'
for _k in DT_KINDS + TZ_KINDS + DATE_KINDS:
    FAMILY[_k] = 'date'

INT_RANGE = {'int8': (-128, 127), 'int16': (-2 ** 15, 2 ** 15 - 1), 'int32': (-2 ** 31, 2 ** 31 - 1),
             'int64': (-2 ** 63, 2 ** 63 - 1), 'uint8': (0, 255), 'uint16': (0, 65535), 'uint32': (0, 2 ** 32 - 1),
             'uint64': (0, 2 ** 64 - 1), 'Int8': (-128, 127), 'Int64': (-2 ** 63, 2 ** 63 - 1),
             'UInt64': (0, 2 ** 64 - 1)}

NAMES = ['a', 'b c', 'näme', '日本', '7', 'x"y', "q'r", 'a_min_ok', 'n_failures', 'Index', 'x.y', 'A', ' lead', 'tab\tname',
         'index', 'level_0', 'a_nonnull_ok',
         # names that look like something else in a .tdda file: comment markers and the format's own keywords
         '#id', '#', '#CHROM', 'fields', 'type', 'min', 'creation_metadata', 'comment', 'rex', 'value']
ROWS = [0, 1, 2, 3, 5, 21, 30, 60]
NULLS = ['none', 'none', 'one', 'two', 'many', 'all']


def _int_values(rng, kind, n):
    lo, hi = INT_RANGE[kind]
    mode = rng.random()
    out = []
    for _ in range(n):
        r = rng.random()
        if mode < 0.2:
            v = rng.choice([lo, hi, 0, lo + 1, hi - 1])
        elif mode < 0.4:
            v = rng.randint(max(lo, -3), min(hi, 3))
        elif mode < 0.55:
            v = rng.randint(max(lo, 1), min(hi, 50))          # all positive
        elif mode < 0.7 and lo < 0:
            v = rng.randint(max(lo, -50), -1)                 # all negative
        elif mode < 0.75:
            v = 0
        else:
            v = rng.randint(max(lo, -10 ** 6), min(hi, 10 ** 6)) if r < 0.8 else rng.choice([lo, hi])
        out.append(v)
    return out


SPECIAL_FLOATS = ['inf', '-inf', 0.0, -0.0, 5e-324, 1e308, -1e308, 1.5, -2.25, 1e-9, 3.0, 100.0, 0.1, 7e22]


def _float_values(rng, kind, n):
    mode = rng.random()
    out = []
    for _ in range(n):
        if mode < 0.25:
            v = rng.choice(SPECIAL_FLOATS)
        elif mode < 0.45:
            v = float(rng.randint(-5, 5))                     # whole-number reals
        elif mode < 0.6:
            v = rng.random() * 100 + 0.5                      # positive
        elif mode < 0.7:
            v = -rng.random() * 100 - 0.5
        else:
            v = rng.choice([rng.gauss(0, 1e3), rng.random(), float(rng.randint(-100, 100)), rng.choice(SPECIAL_FLOATS)])
        if kind == 'float32' and isinstance(v, float) and math.isfinite(v):
            import numpy as np
            with np.errstate(over='ignore'):
                v32 = float(np.float32(v))
            v = v32 if math.isfinite(v32) else ('inf' if v > 0 else '-inf')
        out.append(v)
    return out


def _str_values(rng, n):
    if n and rng.random() < 0.03:
        return S.backref_values(rng, n)
    if n >= 2 and rng.random() < 0.03:
        base = S.longtexts(rng)
        return [base[i % len(base)] for i in range(n)]
    if n >= 3 and rng.random() < 0.04:
        base = S.runlengths(rng) if rng.random() < 0.7 else S.manygroups(rng)
        return [base[i % len(base)] for i in range(n)]
    if n and rng.random() < 0.05:
        base = S.lookalikes(rng)
        return [base[i % len(base)] for i in range(n)]
    ndistinct = rng.choice([1, 2, 5, 19, 20, 21, 25, n or 1])
    alph, _ = S.alphabet(rng)
    if rng.random() < 0.3:
        alph = S.LETTERS + S.DIGITS
    pool = []
    tries = 0
    while len(pool) < ndistinct and tries < 400:
        tries += 1
        s = S.rstr(rng, alph, 0, 6)
        if rng.random() < 0.15:
            s = S.structured(rng, alph)
        # pandas' object hashtable treats strings as C strings: values differing only after an
        # embedded NUL collapse in unique()/Categorical - an environment quirk, so no NULs here
        s = s.replace('\x00', '\x01')
        if s not in pool:
            pool.append(s)
    if rng.random() < 0.3:
        return [pool[i % len(pool)] for i in range(n)]        # all-distinct prefix / cyclic
    return [rng.choice(pool) for _ in range(n)]


_DT_BASE = [datetime.datetime(2020, 2, 29, 23, 59, 59), datetime.datetime(1970, 1, 1), datetime.datetime(1999, 12, 31, 12, 0, 1),
            datetime.datetime(2038, 1, 19, 3, 14, 8), datetime.datetime(1900, 1, 1), datetime.datetime(2262, 4, 11, 23, 47, 16),
            datetime.datetime(1677, 9, 22), datetime.datetime(2021, 3, 28, 1, 30), datetime.datetime(2021, 10, 31, 1, 30)]


def _dt_values(rng, kind, n):
    res = kind.split('_')[1] if kind in DT_KINDS else 'ns'
    out = []
    wide = kind in ('dt_s', 'dt_ms', 'dt_us') and rng.random() < 0.2
    for _ in range(n):
        if wide:
            base = datetime.datetime(rng.choice([1, 1000, 1582, 9999]), rng.randint(1, 12), rng.randint(1, 28))
        else:
            base = rng.choice(_DT_BASE) + datetime.timedelta(days=rng.randint(-400, 400) if rng.random() < 0.6 else 0,
                                                             seconds=rng.randint(0, 86399) if rng.random() < 0.5 else 0)
            if base.year < 1678 or base.year > 2261:
                base = datetime.datetime(2000, 1, 1)
        s = base.strftime('%Y-%m-%dT%H:%M:%S')
        if len(s.split('-')[0]) < 4:
            s = s.zfill(19)
        frac = ''
        r = rng.random()
        if res == 'ms' and r < 0.5:
            frac = '.%03d' % rng.randrange(1000)
        elif res == 'us' and r < 0.5:
            frac = '.%06d' % rng.randrange(10 ** 6)
        elif res == 'ns' and r < 0.6:
            frac = '.%09d' % (rng.randrange(10 ** 9) if r < 0.3 else rng.randrange(1000) * 10 ** 6)
        out.append(s + frac)
    return out


def _date_values(rng, n):
    return [(datetime.date(rng.choice([1, 1900, 1999, 2020, 2024, 9999]), rng.randint(1, 12), rng.randint(1, 28))).isoformat()
            .zfill(10) for _ in range(n)]


def apply_nulls(rng, values, pattern):
    n = len(values)
    if n == 0 or pattern == 'none':
        return values
    idx = list(range(n))
    rng.shuffle(idx)
    k = {'one': 1, 'two': 2, 'many': max(2, n // 2), 'all': n}[pattern]
    for i in idx[:min(k, n)]:
        values[i] = None
    return values


def gen_column(rng, kind, n, name=None, nulls=None):
    fam = FAMILY[kind]
    if kind in INT_KINDS + NULLABLE_INT:
        vals = _int_values(rng, kind, n)
    elif fam == 'real':
        vals = _float_values(rng, kind, n)
    elif fam == 'bool':
        mode = rng.random()
        vals = [(rng.random() < 0.5) if mode < 0.6 else (mode < 0.8) for _ in range(n)]
    elif fam == 'string':
        vals = _str_values(rng, n)
    elif kind in DATE_KINDS:
        vals = _date_values(rng, n)
    else:
        vals = _dt_values(rng, kind, n)
    if nulls is None:
        nulls = rng.choice(NULLS)
    if kind in INT_KINDS or kind == 'bool':
        nulls = 'none'                                   # numpy ints/bools cannot hold nulls
    vals = apply_nulls(rng, vals, nulls)
    col = {'name': name if name is not None else rng.choice(NAMES), 'kind': kind, 'values': vals, 'nulls': nulls}
    if kind == 'cat' and rng.random() < 0.4:
        col['extra_categories'] = ['unused1', 'zzz']
    if kind == 'str_obj' and sum(1 for v in vals if v is None) >= 2 and rng.random() < 0.4:
        col['null_kinds'] = 'mixed'
    return col


def gen_frame(rng, kinds=None, ncols=None, nrows=None, pool=RECOGNISED):
    if nrows is None:
        nrows = rng.choice(ROWS)
    if kinds is None:
        kinds = [rng.choice(pool) for _ in range(ncols or rng.randint(1, 4))]
    cols = []
    used = set()
    for k in kinds:
        name = rng.choice(NAMES)
        while name in used:
            name = name + rng.choice('xyz_2')
        used.add(name)
        cols.append(gen_column(rng, k, nrows, name=name))
    return {'cols': cols, 'nrows': nrows}


def _f(v):
    if v == 'nan':
        return float('nan')
    if v == 'inf':
        return float('inf')
    if v == '-inf':
        return float('-inf')
    return v


def build_series(col):
    import numpy as np
    import pandas as pd
    kind, vals = col['kind'], col['values']
    n = len(vals)
    if kind in INT_KINDS:
        return pd.Series(np.array(vals, dtype=kind)) if n else pd.Series([], dtype=kind)
    if kind in NULLABLE_INT:
        return pd.Series([pd.NA if v is None else v for v in vals], dtype=kind)
    if kind in FLOAT_KINDS:
        return pd.Series(np.array([np.nan if v is None else _f(v) for v in vals], dtype=kind))
    if kind == 'Float64':
        return pd.Series([pd.NA if v is None else _f(v) for v in vals], dtype='Float64')
    if kind == 'bool':
        return pd.Series(np.array(vals, dtype=bool))
    if kind == 'objbool':
        return pd.Series(list(vals), dtype=object)
    if kind == 'boolean':
        return pd.Series([pd.NA if v is None else v for v in vals], dtype='boolean')
    if kind == 'str_obj':
        if col.get('null_kinds') == 'mixed':
            # missing cells spelled in two ways within one object column (None where assigned, NaN where loaded): both are nulls
            spell = [None, np.nan]
            k = [0]

            def nul():
                k[0] += 1
                return spell[k[0] % len(spell)]
            return pd.Series([nul() if v is None else v for v in vals], dtype=object)
        return pd.Series(list(vals), dtype=object)
    if kind == 'str_pd3':
        return pd.Series(list(vals), dtype='str')
    if kind == 'string_ext':
        return pd.Series(list(vals), dtype='string')
    if kind == 'cat':
        cats = sorted(set(v for v in vals if v is not None))
        cats += [c for c in col.get('extra_categories', []) if c not in cats]
        return pd.Series(pd.Categorical(list(vals), categories=cats))
    if kind in DT_KINDS:
        unit = kind.split('_')[1]
        arr = np.array(['NaT' if v is None else v for v in vals], dtype='datetime64[%s]' % unit)
        return pd.Series(arr)
    if kind in TZ_KINDS:
        tz = 'UTC' if kind == 'dt_tz_utc' else 'Europe/London'
        arr = np.array(['NaT' if v is None else v for v in vals], dtype='datetime64[ns]')
        return pd.Series(arr).dt.tz_localize('UTC').dt.tz_convert(tz)
    if kind == 'dateobj':
        return pd.Series([None if v is None else datetime.date(int(v[:4]), int(v[5:7]), int(v[8:10])) for v in vals],
                         dtype=object)
    raise ValueError(kind)


def build_frame(spec):
    import pandas as pd
    data = {}
    for col in spec['cols']:
        data[col['name']] = build_series(col)
    df = pd.DataFrame(data)
    if not spec['cols']:
        df = pd.DataFrame(index=range(spec['nrows']))
    return df


def py_values(col):
    """Plain-Python non-null values of a column, for oracles (floats decoded, datetimes as
    (datetime, extra_ns) pairs are not needed here: ISO strings compare correctly when the
    year has 4 digits)."""
    return [_f(v) for v in col['values'] if v is not None]

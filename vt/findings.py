"""Known findings: genuine defects recorded rather than repaired.

known_findings.json is committed and never written at run time.  Entries are keyed
by *mechanism*: each names a classifier (a small pure function below) that looks
only at a violation witness' `kind`, `mech` and `facts` and answers "is this that
mechanism?".  A witness no classifier claims is a VIOLATION.  Entries whose status
is "fixed" suppress nothing.
"""
import json
import os

HERE = os.path.dirname(os.path.dirname(os.path.abspath(__file__)))
PATH = os.path.join(HERE, 'known_findings.json')

CLASSIFIERS = {}


def classifier(f):
    CLASSIFIERS[f.__name__] = f
    return f


def load_known():
    if not os.path.exists(PATH):
        return []
    return json.load(open(PATH))['findings']


def classify(prop, witness, known):
    for ent in known:
        if ent.get('status') != 'known' or ent['property'] != prop:
            continue
        fn = CLASSIFIERS.get(ent['classifier'])
        if fn is None:
            continue
        try:
            if fn(witness, **ent.get('classifier_args', {})):
                return ent['id']
        except Exception:
            continue
    return None


def _facts(w):
    return w.get('facts') or {}


def _mech(w):
    return w.get('mech') or {}

# ---------------------------------------------------------------------------
# classifiers are added below as findings are recorded
# ---------------------------------------------------------------------------


@classifier
def c07_no_duplicates_not_discovered_for_date_or_bool(w):
    """discovery computes the distinct count for string and int fields only, so an all-distinct
    date field or a two-valued bool field never gets no_duplicates"""
    m = _mech(w)
    return w.get('kind') == 'constraint_missing' and m.get('kind') == 'no_duplicates' and m.get('family') in ('date', 'bool')


@classifier
def c07_nanosecond_bounds_truncated(w):
    """min/max of datetime64[ns] data are converted with to_pydatetime(): the sub-microsecond part is dropped"""
    m = _mech(w)
    return (w.get('kind') == 'statistic_wrong' and m.get('kind') in ('min', 'max') and m.get('family') == 'date'
            and m.get('sub') == 'sub-microsecond part dropped' and m.get('backend') == 'pandas')


@classifier
def c09_date_only_bound_gains_midnight(w):
    """a date bound written as YYYY-MM-DD is loaded as a datetime and re-serialised with ' 00:00:00'"""
    m = _mech(w)
    return w.get('kind') == 'text_changes_on_roundtrip' and m.get('date_only_bound') and m.get('only_midnight_suffix')


@classifier
def c09_infinite_bound_written_as_bare_infinity(w):
    """an infinite min/max is written by json.dumps as the non-JSON token Infinity / -Infinity"""
    m = _mech(w)
    return w.get('kind') == 'not_strict_json' and m.get('problem') == 'non-json-constant' and m.get('bare_infinity')


@classifier
def c16_string_cell_is_pandas_na_token(w):
    """pandas' default NA tokens stay enabled when reading with CSVW metadata, so a string cell such as
    NA / null / None / n/a / NaN loads as null although CSVW's only default null marker is the empty string"""
    m = _mech(w)
    return (w.get('kind') == 'cell_value' and m.get('declared') == 'string' and m.get('string_is_pandas_na_token')
            and m.get('became_null'))

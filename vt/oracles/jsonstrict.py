"""Strict reading of '.tdda text is valid UTF-8 JSON with no trailing whitespace'."""
import json
import re


class NotStrict(Exception):
    pass


def _const(name):
    raise NotStrict('non-JSON constant %s' % name)


def problems(text):
    out = []
    try:
        text.encode('utf-8')
    except UnicodeError as e:
        out.append(('not-utf8', str(e)[:80]))
    try:
        json.loads(text, parse_constant=_const)
    except NotStrict as e:
        out.append(('non-json-constant', str(e)))
    except ValueError as e:
        out.append(('invalid-json', str(e)[:120]))
    for i, line in enumerate(text.split('\n')):
        if line != line.rstrip():
            out.append(('trailing-whitespace', 'line %d' % (i + 1)))
            break
    if not text.endswith('\n'):
        out.append(('no-final-newline', ''))
    return out

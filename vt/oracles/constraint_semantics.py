"""Reference semantics of tdda field constraints, written from tdda_json_file_format.md and the
verify_df docstring.  Pure Python over the column *spec* (vt.gens.frames); never calls tdda or
pandas.  expected(col, kind, value, opts) -> True / False / None (= unspecified).

Also row_flags(col, kind, value, opts): per-record meaning used by the detection check (C06).
"""
import datetime
import math
import re
from fractions import Fraction

from vt.gens import frames as F

RE_FLAGS = re.UNICODE | re.DOTALL
SIGNS = ('positive', 'non-negative', 'zero', 'non-positive', 'negative', 'null')
UNSPEC = None


def tdda_type(col):
    """Documented tdda type of the column; None when the mapping is not determined."""
    k = col['kind']
    fam = F.FAMILY[k]
    nonnull = [v for v in col['values'] if v is not None]
    if k in ('objbool', 'dateobj') and not nonnull:
        return None                      # an all-null object column carries no type of its own
    if k == 'str_obj' and not nonnull:
        return 'string'
    if k in ('str_pd3', 'string_ext', 'Float64'):
        return None
    return fam


def _num(v):
    if isinstance(v, str):
        return {'nan': float('nan'), 'inf': float('inf'), '-inf': float('-inf')}[v]
    return v


def nonnull_numbers(col):
    out = []
    for v in col['values']:
        if v is None:
            continue
        v = _num(v)
        if isinstance(v, float) and v != v:
            continue
        out.append(v)
    return out


def parse_dt(s):
    """ISO string -> (datetime truncated to microseconds, extra nanoseconds 0..999)."""
    s = s.replace('T', ' ')
    tz = None
    m = re.match(r'^(.*?)([+-]\d\d:\d\d(?::\d\d)?)$', s)
    if m and len(m.group(1)) > 10:
        s, tz = m.group(1), m.group(2)
    if len(s) == 10:
        s += ' 00:00:00'
    frac = ''
    if '.' in s:
        s, frac = s.split('.')
    y, mo, d = int(s[0:4]), int(s[5:7]), int(s[8:10])
    hh, mi, ss = int(s[11:13]), int(s[14:16]), int(s[17:19])
    frac = (frac + '000000000')[:9]
    dt = datetime.datetime(y, mo, d, hh, mi, ss, int(frac[:6]))
    if tz:
        sign = 1 if tz[0] == '+' else -1
        parts = [int(x) for x in tz[1:].split(':')]
        off = datetime.timedelta(hours=parts[0], minutes=parts[1], seconds=parts[2] if len(parts) > 2 else 0)
        dt = dt - sign * off             # normalise to UTC
    return dt, int(frac[6:])


def nonnull_dates(col):
    return [parse_dt(v) for v in col['values'] if v is not None]


def nonnull_strings(col):
    return [v for v in col['values'] if v is not None]


def _frac(x):
    if isinstance(x, bool):
        return Fraction(int(x))
    if isinstance(x, int):
        return Fraction(x)
    return Fraction(x)       # exact value of the float


def _near(a, b, rel=1e-9):
    if a == b:
        return False
    scale = max(abs(a), abs(b), Fraction(1, 10 ** 300))
    return abs(a - b) <= Fraction(rel) * scale


def _bound_check(extreme, bound, precision, eps, is_min):
    """extreme = min (is_min) or max of the data; exact rational arithmetic."""
    if isinstance(bound, bool):
        return UNSPEC
    if (isinstance(extreme, float) and math.isinf(extreme)) or (isinstance(bound, float) and math.isinf(bound)):
        # scaling an infinity leaves it unchanged, so fuzzy coincides with closed
        if precision == 'open':
            return extreme > bound if is_min else extreme < bound
        return extreme >= bound if is_min else extreme <= bound
    x, b = _frac(extreme), _frac(bound)
    if precision == 'closed':
        return x >= b if is_min else x <= b
    if precision == 'open':
        return x > b if is_min else x < b
    # fuzzy (default)
    if eps is None:
        # default epsilon: documentation says 1%, code says 0 - decided only where both agree
        r0 = _bound_check(extreme, bound, 'fuzzy', 0.0, is_min)
        r1 = _bound_check(extreme, bound, 'fuzzy', 0.01, is_min)
        return r0 if r0 == r1 else UNSPEC
    e = Fraction(eps)
    if is_min:
        t = b * ((1 - e) if b >= 0 else (1 + e))      # fuzz_down
        if x >= b:
            return True
        if _near(x, t) and e:
            return UNSPEC
        return x >= t
    t = b * ((1 + e) if b >= 0 else (1 - e))          # fuzz_up
    if x <= b:
        return True
    if _near(x, t) and e:
        return UNSPEC
    return x <= t


def expected(col, kind, value, opts, present=True):
    """Documented verdict of one constraint on one column.  opts: epsilon, type_checking."""
    spec_value = value
    precision = None
    if isinstance(value, dict) and kind in ('min', 'max'):
        precision = value.get('precision')
        value = value.get('value')
    if not present:
        return UNSPEC if value is None else False
    if value is None:
        return True                       # null-valued constraint: always satisfied
    fam = F.FAMILY[col['kind']]
    t = tdda_type(col)
    tc = opts.get('type_checking') or 'sloppy'
    eps = opts.get('epsilon')
    if kind == 'type':
        allowed = value if isinstance(value, list) else [value]
        if t is None:
            return UNSPEC
        if t in allowed:
            return True
        if tc == 'strict':
            return False
        if 'int' in allowed and t == 'real':
            nums = nonnull_numbers(col)
            if any(isinstance(v, float) and math.isinf(v) for v in nums):
                return UNSPEC
            if col['kind'] == 'float32' or any(abs(v) >= 2 ** 62 for v in nums):
                return UNSPEC
            return all(float(v).is_integer() for v in nums)
        if 'bool' in allowed and t in ('real',):
            return UNSPEC
        if 'bool' in allowed and t == 'string':
            return False if nonnull_strings(col) else UNSPEC
        return False
    if kind in ('min', 'max'):
        is_min = kind == 'min'
        if fam in ('int', 'real', 'bool'):
            if isinstance(value, str) or isinstance(value, bool):
                return UNSPEC
            nums = nonnull_numbers(col)
            if not nums:
                return True
            if fam == 'bool':
                nums = [int(v) for v in nums]
            ext = min(nums) if is_min else max(nums)
            if col['kind'] == 'float32' and _f32_tie(value, [ext]):
                return UNSPEC        # bound not representable in float32 and within rounding of the extreme: numpy's promotion decides
            return _bound_check(ext, value, precision or 'fuzzy', eps, is_min)
        if fam == 'string':
            # a string limit on a string field: plain string order; only the two exact precisions have a documented meaning
            if not isinstance(value, str) or precision not in ('closed', 'open') or t is None:
                return UNSPEC
            ss = nonnull_strings(col)
            if not ss:
                return True
            ext = min(ss) if is_min else max(ss)
            if precision == 'closed':
                return ext >= value if is_min else ext <= value
            return ext > value if is_min else ext < value
        if fam == 'date':
            if not isinstance(value, str):
                return UNSPEC
            if precision == 'open':
                return UNSPEC             # code treats date bounds as closed; doc is silent
            try:
                b, bns = parse_dt(value)
            except Exception:
                return UNSPEC
            has_tz = bool(re.search(r'[+-]\d\d:\d\d(:\d\d)?$', value)) and len(value) > 10
            if (col['kind'] in F.TZ_KINDS) != has_tz:
                return UNSPEC
            ds = nonnull_dates(col)
            if not ds:
                return True
            ext = min(ds) if is_min else max(ds)
            if ext[0] == b and ext[1] != bns:
                return UNSPEC             # sub-microsecond territory (bounds carry microseconds only)
            return ext[0] >= b if is_min else ext[0] <= b
        return UNSPEC                      # min/max on string fields: not documented
    if kind == 'sign':
        if fam not in ('int', 'real', 'bool'):
            return UNSPEC
        nums = nonnull_numbers(col)
        if not nums:
            return True
        if value == 'null':
            return False
        lo, hi = min(nums), max(nums)
        return {'positive': lo > 0, 'non-negative': lo >= 0, 'zero': lo == 0 and hi == 0,
                'non-positive': hi <= 0, 'negative': hi < 0}[value]
    if kind in ('min_length', 'max_length'):
        if fam != 'string' or t is None:
            return UNSPEC
        ss = nonnull_strings(col)
        if not ss:
            return True
        if isinstance(value, bool) or not isinstance(value, (int, float)):
            return UNSPEC
        lens = [len(s) for s in ss]
        return min(lens) >= value if kind == 'min_length' else max(lens) <= value
    if kind == 'max_nulls':
        if t is None and col['kind'] in ('str_pd3', 'string_ext', 'Float64'):
            return UNSPEC
        nn = sum(1 for v in col['values'] if v is None)
        return nn <= value
    if kind == 'no_duplicates':
        if value is False:
            return True
        if t is None and col['kind'] in ('str_pd3', 'string_ext', 'Float64'):
            return UNSPEC
        if fam in ('int', 'real', 'bool'):
            vals = nonnull_numbers(col)
            vals = [float(v) if isinstance(v, float) else v for v in vals]
        elif fam == 'date' and col['kind'] != 'dateobj':
            vals = nonnull_dates(col)
        else:
            vals = nonnull_strings(col)
        return len(set(vals)) == len(vals)
    if kind == 'allowed_values':
        nonnull = [v for v in col['values'] if v is not None and v != 'nan']
        if not nonnull:
            return True
        if fam != 'string' or t is None:
            return UNSPEC
        return set(nonnull) <= set(value)
    if kind == 'rex':
        if fam != 'string' or t is None:
            return UNSPEC
        try:
            comp = [re.compile(r, RE_FLAGS) for r in value]
        except re.error:
            return UNSPEC
        return all(any(c.match(s) for c in comp) for s in set(nonnull_strings(col)))
    return UNSPEC


# ---------------------------------------------------------------------------
# Discovery (C07): the statistics a column must be reported to have
# ---------------------------------------------------------------------------
def fmt_date_value(col, ext):
    """Text form of a date bound as tdda writes it (str(datetime) / str(date))."""
    dt, ns = ext
    if col['kind'] == 'dateobj':
        return '%04d-%02d-%02d' % (dt.year, dt.month, dt.day)
    s = '%04d-%02d-%02d %02d:%02d:%02d' % (dt.year, dt.month, dt.day, dt.hour, dt.minute, dt.second)
    if dt.microsecond:
        s += '.%06d' % dt.microsecond
    return s


def expected_discovery(col, nrows, max_categories=20):
    """(expected {kind: value}, unspecified kinds) for one column.  Values are plain Python;
    date bounds are (datetime-utc, extra_ns) pairs to be compared as instants."""
    t = tdda_type(col)
    if t is None:
        return None, set()
    fam = F.FAMILY[col['kind']]
    exp = {'type': t}
    unspec = set()
    if nrows == 0:
        return exp, unspec
    nnull = sum(1 for v in col['values'] if v is None)
    if nnull < 2:
        exp['max_nulls'] = nnull
    if fam in ('int', 'real', 'bool'):
        nums = nonnull_numbers(col)
        if nums:
            lo, hi = min(nums), max(nums)
            exp['min'], exp['max'] = lo, hi
            if lo == 0 and hi == 0:
                exp['sign'] = 'zero'
            elif lo > 0:
                exp['sign'] = 'positive'
            elif lo >= 0:
                exp['sign'] = 'non-negative'
            elif hi < 0:
                exp['sign'] = 'negative'
            elif hi <= 0:
                exp['sign'] = 'non-positive'
        else:
            unspec.add('sign')            # all-null numeric field: 'null' sign or nothing
        vals = nums
    elif fam == 'date':
        ds = nonnull_dates(col)
        if ds:
            exp['min'], exp['max'] = min(ds), max(ds)
        vals = ds if col['kind'] != 'dateobj' else nonnull_strings(col)
    else:
        ss = nonnull_strings(col)
        if ss:
            exp['min_length'] = min(len(s) for s in ss)
            exp['max_length'] = max(len(s) for s in ss)
            if len(set(ss)) <= max_categories:
                exp['allowed_values'] = set(ss)
        vals = ss
    if fam != 'real' and len(vals) > 1 and len(set(vals)) == len(vals):
        exp['no_duplicates'] = True
    return exp, unspec


# ---------------------------------------------------------------------------
# Record-level meaning (C06): which records violate a failing constraint
# ---------------------------------------------------------------------------
def _f32_tie(bound, values):
    import struct
    try:
        b32 = struct.unpack('f', struct.pack('f', float(bound)))[0]
    except (OverflowError, struct.error, TypeError, ValueError):
        return False
    if b32 == bound:
        return False
    for v in values:
        try:
            if float(v) == b32:
                return True
        except (TypeError, ValueError):
            pass
    return False


def row_flags(col, kind, value, opts):
    """For a constraint that FAILED on this column: list with one entry per record -
    False = the record violates it, True = it does not, None = null value (flagged false
    only by the type and null-count rules).  Returns None when the record-level meaning is
    not documented for this combination."""
    precision = None
    if isinstance(value, dict) and kind in ('min', 'max'):
        precision = value.get('precision')
        value = value.get('value')
    fam = F.FAMILY[col['kind']]
    vals = col['values']
    eps = opts.get('epsilon')
    n = len(vals)
    if kind == 'type':
        return [False] * n
    if kind in ('min', 'max') and col['kind'] == 'float32' and isinstance(value, (int, float)) \
            and not isinstance(value, bool) and abs(value) > 3.4e38:
        return None     # bound outside the column's own number range: element-wise comparison is numpy's business
    if kind in ('min', 'max') and col['kind'] == 'float32' and isinstance(value, (int, float)) and not isinstance(value, bool) \
            and _f32_tie(value, [v for v in vals if v is not None]):
        return None     # bound not representable in float32 and equal, once rounded to float32, to a value of the column
    if kind == 'max_nulls':
        return [v is not None for v in vals]
    if kind == 'no_duplicates':
        keyf = (lambda v: _num(v)) if fam in ('int', 'real', 'bool') else \
            ((lambda v: parse_dt(v)) if fam == 'date' and col['kind'] != 'dateobj' else (lambda v: v))
        cnt = {}
        for v in vals:
            if v is not None:
                cnt[keyf(v)] = cnt.get(keyf(v), 0) + 1
        return [True if v is None else cnt[keyf(v)] == 1 for v in vals]
    out = []
    for v in vals:
        if v is None:
            out.append(None)
            continue
        one = {'kind': col['kind'], 'values': [v]}
        r = expected(one, kind, {'value': value, 'precision': precision} if precision else value, opts)
        if r is None:
            return None
        out.append(r)
    return out

"""Oracle for rexpy results, written against Python's `re` only (never calls tdda)."""
import re

FLAGS = re.UNICODE | re.DOTALL


def targets_of(xs, strip=False, remove_empties=False):
    """Examples that no explicit option discards (multiset as list)."""
    out = []
    for x in xs:
        if x is None:
            continue
        if strip:
            x = x.strip()
        if remove_empties and x == '':
            continue
        out.append(x)
    return out


def compile_all(rex):
    out = []
    for r in rex:
        try:
            out.append(re.compile(r, FLAGS))
        except (re.error, RecursionError, OverflowError) as e:
            return None, (r, str(e))
    return out, None


def anchored(r):
    if not (r.startswith('^') and r.endswith('$')):
        return False
    body = r[:-1]
    nback = len(body) - len(body.rstrip('\\'))
    return nback % 2 == 0


def unmatched(targets, comp):
    return [t for t in targets if not any(c.match(t) for c in comp)]


def only_by_dollar_newline(targets, comp):
    return [t for t in targets if any(c.match(t) for c in comp) and not any(c.fullmatch(t) for c in comp)]

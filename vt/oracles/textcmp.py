"""Three-valued reference model of tdda's text comparison, written from the documentation
of assertStringCorrect / check_strings and the property text.  Pure Python; never calls tdda.

verdict(actual_lines, expected_lines, opts) -> ('pass'|'fail'|'unspecified', info)

Readings (DESIGN.md section 4):
 * lines have already been split by the caller (str.splitlines at the entry points);
 * `preprocess` is applied to both sides first; then ONE trailing empty element is dropped
   from each side (the code does this deliberately; if that drop changes the verdict the
   case is unspecified);
 * lines containing a remove-substring are dropped; the rest are stripped as requested;
 * a pair is EXCUSED (must) when the lines are equal, or the reference line contains an
   ignore-substring, or the lines become equal when every leftmost non-overlapping match of
   an (unanchored) ignore-pattern is replaced by a placeholder, or a fully anchored pattern
   matches both lines entirely;
 * a pair is INEXCUSABLE (must) when no alignment whatsoever of pattern matches on the two
   lines (dynamic programme over all match spans) makes the unmatched parts equal - judged
   on the stripped and on the raw lines - and no ignore-substring applies;
 * anything in between (and patterns anchored on one side only, patterns that can match the
   empty string) is unspecified.
"""
import re

PLACEHOLDER = '\x00<ign>\x00'


def normalizer(lstrip, rstrip):
    if lstrip and rstrip:
        return lambda s: s.strip()
    if lstrip:
        return lambda s: s.lstrip()
    if rstrip:
        return lambda s: s.rstrip()
    return lambda s: s


def pattern_kind(p):
    a = p.startswith('^')
    b = p.endswith('$') and not p.endswith('\\$')
    if a and b:
        return 'full'
    if a or b:
        return 'half'
    return 'free'


def can_match_empty(p):
    try:
        return re.compile(p).fullmatch('') is not None or re.compile(p).search('') is not None
    except re.error:
        return True


def strict_excused(a, e, patterns):
    """Equal after replacing leftmost non-overlapping matches of the free patterns."""
    free = [p for p in patterns if pattern_kind(p) == 'free']
    for p in patterns:
        if pattern_kind(p) == 'full':
            c = re.compile(p)
            if c.match(a) and c.match(e):
                return True
    if not free:
        return False
    # each pattern on its own, then all together
    for p in free:
        c = re.compile(p)
        if c.search(a) and c.search(e) and c.sub(PLACEHOLDER, a) == c.sub(PLACEHOLDER, e):
            return True
    if len(free) > 1:
        # all patterns together - but a part matched by one pattern may only stand against a part
        # matched by the SAME pattern (tdda documents that the pattern must match on both lines), so
        # every pattern gets its own placeholder (private-use characters no pattern can match)
        c = re.compile('|'.join('(?P<p%d>%s)' % (i, p) for i, p in enumerate(free)))

        def mark(m):
            return chr(0xE000 + int(m.lastgroup[1:])) if m.lastgroup else PLACEHOLDER
        try:
            if c.search(a) and c.search(e) and c.sub(mark, a) == c.sub(mark, e):
                return True
        except (re.error, TypeError, ValueError):
            pass
    return False


def _spans(s, comps):
    out = {}
    n = len(s)
    for i in range(n + 1):
        ends = set()
        for c in comps:
            for j in range(i + 1, n + 1):
                if c.fullmatch(s, i, j):
                    ends.add(j)
        if ends:
            out[i] = ends
    return out


def generous_excusable(a, e, patterns):
    """Is there ANY way to read a and e as equal apart from pattern-matched parts?"""
    if a == e:
        return True
    comps = []
    for p in patterns:
        k = pattern_kind(p)
        core = p
        if k in ('full', 'half'):
            c = re.compile(p)
            if c.search(a) and c.search(e):
                return True        # anchored forms excuse whole lines in some readings
            continue
        comps.append(re.compile(core))
    if not comps:
        return False
    if len(a) > 40 or len(e) > 40:
        return True                # too long to search: never claim inexcusable
    sa, se = _spans(a, comps), _spans(e, comps)
    na, ne = len(a), len(e)
    seen = set()
    stack = [(0, 0)]
    while stack:
        i, j = stack.pop()
        if (i, j) in seen:
            continue
        seen.add((i, j))
        if i == na and j == ne:
            return True
        if i < na and j < ne and a[i] == e[j]:
            stack.append((i + 1, j + 1))
        if i in sa and j in se:
            for i2 in sa[i]:
                for j2 in se[j]:
                    stack.append((i2, j2))
    return False


def _core(actual, expected, o, drop_trailing):
    pre = o.get('preprocess_fn')
    if pre:
        expected = pre(list(expected))
        actual = pre(list(actual))
    actual, expected = list(actual), list(expected)
    if drop_trailing:
        if actual and actual[-1] == '':
            actual = actual[:-1]
        if expected and expected[-1] == '':
            expected = expected[:-1]
    rl = o.get('remove_lines') or []
    if rl:
        actual = [x for x in actual if not any(r in x for r in rl)]
        expected = [x for x in expected if not any(r in x for r in rl)]
    norm = normalizer(o.get('lstrip'), o.get('rstrip'))
    info = {'n_actual': len(actual), 'n_expected': len(expected)}
    if len(actual) != len(expected):
        info['why'] = 'different number of lines after removals'
        return 'fail', info
    subs = o.get('ignore_substrings') or []
    pats = o.get('ignore_patterns') or []
    k = o.get('max_permutation_cases') or 0
    U, M, X = [], [], []         # inexcusable, maybe, excused-but-different
    for i, (a, e) in enumerate(zip(actual, expected)):
        na, ne = norm(a), norm(e)
        if na == ne:
            continue
        if any(s in e for s in subs):
            if any(s in e for s in subs) != any(s in ne for s in subs):
                M.append(i)
            else:
                X.append(i)
            continue
        if pats and strict_excused(na, ne, pats) and strict_excused(a, e, pats):
            X.append(i)
            continue
        if pats and strict_excused(na, ne, pats):
            # excused on the stripped lines (the property's reading)
            X.append(i)
            info.setdefault('strip_only_excuse', []).append(i)
            continue
        if pats and (generous_excusable(na, ne, pats) or generous_excusable(a, e, pats)):
            M.append(i)
            continue
        U.append(i)
    info.update({'inexcusable': U, 'maybe': M, 'excused': X,
                 'inexcusable_pairs': [(norm(actual[i]), norm(expected[i])) for i in U[:4]]})
    if not U and not M:
        return 'pass', info
    if not U:
        info['why'] = 'only ambiguous pattern excuses'
        return 'unspecified', info
    if k <= 0 or len(U) > k:
        info['why'] = 'unexcused differences beyond the permutation allowance'
        return 'fail', info
    # 0 < |U| <= k: permutation allowance
    if M:
        info['why'] = 'permutation allowance with ambiguous lines'
        return 'unspecified', info
    ua = sorted(norm(actual[i]) for i in U)
    ue = sorted(norm(expected[i]) for i in U)
    ra = sorted(actual[i] for i in U)
    re_ = sorted(expected[i] for i in U)
    if ua == ue:
        if ra != re_:
            info['perm_strip_only'] = True
        info['why'] = 'permutation'
        return 'pass', info
    if ra == re_:
        return 'unspecified', info
    info['why'] = 'differing lines are not permutations of each other'
    return 'fail', info


def verdict(actual, expected, opts):
    for p in opts.get('ignore_patterns') or []:
        if pattern_kind(p) == 'half' or can_match_empty(p):
            return 'unspecified', {'why': 'half-anchored or empty-matching ignore pattern'}
    v1, i1 = _core(actual, expected, opts, True)
    v2, i2 = _core(actual, expected, opts, False)
    if v1 != v2:
        return 'unspecified', {'why': 'verdict hinges on one trailing empty line', 'with_drop': v1, 'without': v2}
    return v1, i1

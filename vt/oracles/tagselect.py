"""Reference model of unittest + tdda tag selection for a generated test module."""


def resolve(classes):
    """name -> {'tests': {method: {'tagged','fails'}}, 'class_tagged': bool} with inheritance applied."""
    out = {}
    for c in classes:                       # classes are listed bases-first
        base = out.get(c['base'])
        tests = dict(base['tests']) if base else {}
        for t in c['tests']:
            tests[t['name']] = {'tagged': t['tagged'], 'fails': t['fails']}
        out[c['name']] = {'tests': tests, 'class_tagged': c['tagged'] or bool(base and base['class_tagged'])}
    return out


def expected(case):
    """Returns dict(executed=[ids in order], listing=set(class names) or None, status=0/1/None)."""
    model = resolve(case['classes'])
    sel = case['argv_model']
    names = sel['classes'] or sorted(model)
    names = [n for n in names if n in model]
    if not sel['classes']:
        names = sorted(model)               # unittest loads module classes in dir() order
    order = []
    for n in names:
        for m in sorted(model[n]['tests']):
            t = model[n]['tests'][m]
            tagged = model[n]['class_tagged'] or t['tagged']
            if not k_matches(sel.get('k'), n, m, sel.get('module', '__main__')):
                continue                    # unittest's -k keeps only tests whose full name matches a pattern
            order.append((n, m, tagged, t['fails']))
    if sel['mode'] == 'list':
        listing = set(n for (n, m, tagged, f) in order if tagged)
        return {'executed': [], 'listing': listing, 'status': None}
    if sel['mode'] == 'tagged':
        order = [x for x in order if x[2]]
    executed = []
    failed = False
    for (n, m, tagged, fails) in order:
        executed.append('%s.%s' % (n, m))
        if fails:
            failed = True
            if sel['failfast']:
                break
    # an empty run exits with 5 on Python 3.12+ and 0 before: not part of the property
    return {'executed': executed, 'listing': None, 'status': (1 if failed else 0) if executed else None}


def k_matches(patterns, cls, method, module='__main__'):
    """unittest's documented -k rule: a pattern without '*' is a substring test, otherwise an fnmatch (case
    sensitive) against the full test name module.Class.method; several -k are alternatives."""
    if not patterns:
        return True
    import fnmatch
    full = '%s.%s.%s' % (module, cls, method)
    for p in patterns:
        if '*' not in p:
            p = '*%s*' % p
        if fnmatch.fnmatchcase(full, p):
            return True
    return False

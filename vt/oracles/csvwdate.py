"""Independent renderer for the documented subset of CSVW (UAX-35) date/time patterns:
d dd M MM yy yyyy HH mm ss S SS SSS with literal separators.  Never calls tdda."""
import datetime

TOKENS = ['yyyy', 'yy', 'MM', 'M', 'dd', 'd', 'HH', 'mm', 'ss', 'SSS', 'SS', 'S']


def tokenize(fmt):
    out = []
    i = 0
    while i < len(fmt):
        for t in TOKENS:
            if fmt.startswith(t, i):
                out.append(('tok', t))
                i += len(t)
                break
        else:
            out.append(('lit', fmt[i]))
            i += 1
    return out


def render(fmt, dt):
    s = []
    for kind, t in tokenize(fmt):
        if kind == 'lit':
            s.append(t)
        elif t == 'yyyy':
            s.append('%04d' % dt.year)
        elif t == 'yy':
            s.append('%02d' % (dt.year % 100))
        elif t == 'MM':
            s.append('%02d' % dt.month)
        elif t == 'M':
            s.append('%d' % dt.month)
        elif t == 'dd':
            s.append('%02d' % dt.day)
        elif t == 'd':
            s.append('%d' % dt.day)
        elif t == 'HH':
            s.append('%02d' % dt.hour)
        elif t == 'mm':
            s.append('%02d' % dt.minute)
        elif t == 'ss':
            s.append('%02d' % dt.second)
        else:
            n = len(t)
            s.append(('%06d' % dt.microsecond)[:n])
    return ''.join(s)


def carried(fmt, dt):
    """dt truncated to what the pattern can carry (fields absent from the pattern -> minimal)."""
    toks = set(t for k, t in tokenize(fmt) if k == 'tok')
    frac = max([len(t) for t in toks if t.startswith('S')] or [0])
    micro = int(('%06d' % dt.microsecond)[:frac].ljust(6, '0')) if frac else 0
    return datetime.datetime(dt.year, dt.month if toks & {'M', 'MM'} else 1, dt.day if toks & {'d', 'dd'} else 1,
                             dt.hour if 'HH' in toks else 0, dt.minute if 'mm' in toks else 0,
                             dt.second if 'ss' in toks else 0, micro)


def grid(full=True):
    """Every date / date-time pattern of the documented family."""
    dates = []
    for d in ('d', 'dd'):
        for m in ('M', 'MM'):
            for y in ('yy', 'yyyy'):
                for sep in ('-', '/', '.', ' '):
                    dates.append(sep.join([d, m, y]))
                    dates.append(sep.join([y, m, d]))
                    dates.append(sep.join([m, d, y]))
    times = []
    for tsep in (':', '.'):
        for parts in (['HH', 'mm'], ['HH', 'mm', 'ss']):
            base = tsep.join(parts)
            times.append(base)
            if len(parts) == 3:
                for f in ('S', 'SS', 'SSS'):
                    for fsep in (('.', ':', ' ', '-', '/') if tsep == ':' else ('.',)):
                        times.append(base + fsep + f)
    times.append('HHmmss')
    out = list(dates)
    for dpat in dates:
        for t in times:
            for j in (' ', 'T'):
                out.append(dpat + j + t)
    return out


INSTANTS = [datetime.datetime(1999, 3, 7, 14, 25, 36, 789000), datetime.datetime(2001, 11, 23, 5, 8, 9, 120000),
            datetime.datetime(2024, 2, 29, 23, 59, 58, 400000), datetime.datetime(1975, 10, 1, 0, 2, 3, 50000)]

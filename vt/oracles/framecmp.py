"""Reference rule for tdda's DataFrame comparison, from the assertDataFramesEqual docstring and
the property text.  Works on (base spec, mutation, options) - the harness knows which single
difference it planted, so the rule is simply: which planted differences MUST be reported, which
MUST be tolerated, and which are left open."""


def selected(opt, all_cols, mutated_cols):
    """How an option value (None/False/list/'fn:...') relates to the mutated columns:
    'all' every mutated column is selected, 'none' no mutated column selected, 'mixed'."""
    if opt is None or opt is True:
        cols = list(all_cols)
    elif opt is False:
        cols = []
    elif isinstance(opt, dict):            # {'fn': [...]} : function returning that list
        cols = opt['fn']
    else:
        cols = list(opt)
    inside = [c for c in mutated_cols if c in cols]
    if len(inside) == len(mutated_cols):
        return 'all'
    if not inside:
        return 'none'
    return 'mixed'


def verdict(mut, opts, all_cols):
    """mut: dict describing the single planted difference (kind, col, ...).
    Returns 'pass' | 'fail' | 'unspecified' and a reason."""
    kind = mut['kind']
    cd, ct, co = opts.get('check_data'), opts.get('check_types'), opts.get('check_order')
    cx = opts.get('check_extra_cols')
    tm = opts.get('type_matching') or 'strict'
    p = opts.get('precision')
    sortby = opts.get('sortby')
    cond = opts.get('condition')
    if kind == 'copy':
        return 'pass', 'a copy always passes'
    col = mut.get('col')
    if kind == 'object_lookalike':
        # every non-null cell of the column is a different VALUE (a date object against its text), the dtype is the same:
        # must fail wherever the column's values are checked at all
        if cond or (sortby and col in (sortby or [])):
            return 'unspecified', 'condition / sorting on the mutated column'
        if selected(cd, all_cols, [col]) == 'none':
            return 'pass', 'difference is in a column whose values are not checked'
        return 'fail', 'checked values differ (same text, different values)'
    if kind in ('value', 'null_to_value', 'value_to_null', 'float_small', 'float_large'):
        if cond and mut.get('row_filtered_by_condition') is not False:
            return 'unspecified', 'mutated row may be filtered out by the condition'
        if sortby and col in (sortby or []):
            return 'unspecified', 'sorting on the mutated column'
        sel = selected(cd, all_cols, [col])
        if sel == 'none':
            return 'pass', 'difference is in a column whose values are not checked'
        if kind == 'float_small':
            if p is None:
                return 'unspecified', 'default precision (docstring: no rounding; code: 6 places)'
            return 'pass', 'difference disappears when rounding to the requested precision'
        if kind == 'float_large' and p is None and mut.get('delta', 1) < 1e-5:
            return 'unspecified', 'default precision'
        return 'fail', 'a checked value differs by more than the precision'
    if kind == 'retype_and_value':
        # a wider column type on the actual side AND a value that differs by delta >= 0.5
        if cond and mut.get('row_filtered_by_condition') is not False:
            return 'unspecified', 'mutated row may be filtered out by the condition'
        if sortby and col in (sortby or []):
            return 'unspecified', 'sorting on the mutated column'
        if selected(cd, all_cols, [col]) == 'none':
            return verdict(dict(mut, kind='retype'), opts, all_cols)
        if p == 0 and mut.get('delta', 1) <= 0.5:
            return 'unspecified', 'half a unit at precision 0 (rounding to even)'
        return 'fail', 'a checked value differs by more than the precision, whatever the column types are'
    if kind == 'rename':
        sel = selected(ct, all_cols, [col])
        if sel == 'all':
            return 'fail', 'a column whose type is checked is missing (renamed)'
        return 'unspecified', 'column missing from actual but excluded from the type check'
    if kind == 'retype_family':
        # numeric actual column against a datetime / text (non-object) reference column
        sel = selected(ct, all_cols, [col])
        if sel == 'all':
            return 'fail', 'numeric against datetime/text column: a type difference at every matching level'
        if sel == 'none' and selected(cd, all_cols, [col]) == 'none':
            return 'pass', 'type and values of the retyped column are not checked'
        return 'unspecified', 'values of a retyped column'
    if kind == 'retype':
        sel = selected(ct, all_cols, [col])
        if sel == 'none':
            if selected(cd, all_cols, [col]) == 'none':
                return 'pass', 'type and values of the retyped column are not checked'
            return 'unspecified', 'values of a retyped column'
        if tm == 'strict':
            return 'fail', 'column type differs under strict matching'
        return 'unspecified', 'loosened type matching'
    if kind == 'move':
        if co is False:
            return 'pass', 'column order is not checked'
        if co is None or co is True:
            return 'fail', 'relative column order differs'
        return 'unspecified', 'partial order check'
    if kind == 'drop':
        sel = selected(ct, all_cols, [col])
        if sel == 'all':
            return 'fail', 'a column whose type is checked is missing'
        return 'unspecified', 'column missing from actual but excluded from the type check'
    if kind == 'add_col':
        if 'check_extra_cols' not in opts or cx is None or cx is True:
            return 'fail', 'unexpected extra column'
        if cx is False:
            return 'pass', 'extra columns are not checked'
        return 'unspecified', 'partial extra-column check'
    if kind in ('add_row', 'remove_row', 'key_crosses_condition'):
        if cond:
            # the rows compared are those the condition keeps: the harness knows every key
            if mut.get('filtered_counts_equal') is True and kind != 'key_crosses_condition':
                return 'pass', 'the extra/missing row is filtered out by the condition on both sides'
            if mut.get('filtered_counts_equal') is False:
                return 'fail', 'different number of rows after the condition'
            return 'unspecified', 'row count under a condition'
        if kind == 'key_crosses_condition':
            return 'unspecified', 'no condition'
        return 'fail', 'different number of rows'
    if kind == 'swap_rows':
        if cond:
            return 'unspecified', 'condition'
        differing = mut.get('differing_cols', [])
        if sortby:
            if mut.get('sort_restores'):
                return 'pass', 'sorting on a unique key restores the row order'
            return 'unspecified', 'sort does not determine the order'
        sel = selected(cd, all_cols, differing)
        if sel == 'none':
            return 'pass', 'rows differ only in unchecked columns'
        if sel == 'all' or differing:
            if sel == 'mixed':
                return 'fail', 'reordered rows differ in a checked column'
            return 'fail', 'reordered rows differ in checked columns'
    return 'unspecified', 'no rule'

"""Shared plumbing: recorder (per-shard event log), fingerprints, JSON-safe dumps."""
import collections
import hashlib
import json
import os
import random
import time
import traceback

REPO = os.environ.get('VT_REPO', '/repo')
VERIF = os.path.dirname(os.path.dirname(os.path.abspath(__file__)))
SCRATCH = os.environ.get('VT_SCRATCH') or '/var/tmp/vt-manual-%d' % os.getpid()


def jsafe(o, depth=0):
    """Render any object as something json.dumps accepts (lossy but readable)."""
    if depth > 8:
        return repr(o)[:200]
    if o is None or isinstance(o, (bool, int, str)):
        return o
    if isinstance(o, float):
        if o != o or o in (float('inf'), float('-inf')):
            return repr(o)
        return o
    if isinstance(o, bytes):
        return {'__bytes__': o.hex()}
    if isinstance(o, dict):
        return {(k if isinstance(k, str) else repr(k)): jsafe(v, depth + 1)
                for k, v in o.items()}
    if isinstance(o, (list, tuple, set, frozenset)):
        return [jsafe(v, depth + 1) for v in o]
    return repr(o)[:500]


def fingerprint(obj):
    """48-bit stable fingerprint of a (JSON-safe) case description."""
    s = json.dumps(jsafe(obj), sort_keys=True, ensure_ascii=True, default=repr)
    return int.from_bytes(hashlib.blake2b(s.encode(), digest_size=6).digest(), 'big')


def short_tb(exc, repo=REPO):
    """Innermost frame inside the tdda tree + exception type: a *mechanism* key."""
    tb = traceback.extract_tb(exc.__traceback__)
    loc = None
    for f in tb:
        if '/tdda/' in f.filename and '/verif/' not in f.filename:
            loc = f
    where = ('%s:%s' % (loc.filename.split('/tdda/', 1)[1], loc.name)) if loc else 'outside-tdda'
    return {'exc': type(exc).__name__, 'where': where,
            'line': loc.lineno if loc else None, 'msg': str(exc)[:300]}


class Recorder(object):
    """Per-shard event log.  Everything a check observes goes through here, so that
    evidence reports what the monitors actually saw and not merely that code ran."""

    MAX_WITNESS_PER_KIND = 12

    def __init__(self, prop, tier, seed, shard):
        self.prop, self.tier, self.seed, self.shard = prop, tier, seed, shard
        self.evaluations = 0
        self.fps = set()              # fingerprints of distinct non-trivial cases
        self.trivial = 0
        self.classes = collections.Counter()    # class matrix
        self.monitors = collections.Counter()   # monitor name -> events observed
        self.unspec = collections.Counter()     # unspecified (no verdict) by reason
        self.viol_counts = collections.Counter()
        self.witnesses = []           # [{kind, ...witness...}]
        self.samples = []
        self._wit_per_kind = collections.Counter()
        self.notes = collections.Counter()
        self.t0 = time.time()
        self._srng = random.Random(seed * 7919 + shard)

    # -- cases -------------------------------------------------------------
    def case(self, desc, nontrivial=True, cls=None):
        self.evaluations += 1
        if nontrivial:
            self.fps.add(fingerprint(desc))
        else:
            self.trivial += 1
        if cls is not None:
            if isinstance(cls, (list, tuple)) and cls and isinstance(cls[0], (list, tuple)):
                for c in cls:
                    self.classes['|'.join(map(str, c))] += 1
            else:
                self.classes['|'.join(map(str, cls)) if isinstance(cls, (list, tuple)) else str(cls)] += 1
        # reservoir of samples
        if len(self.samples) < 3:
            self.samples.append(jsafe(desc))
        elif self._srng.random() < 0.002:
            self.samples[self._srng.randrange(3)] = jsafe(desc)

    def cls(self, *c):
        self.classes['|'.join(map(str, c))] += 1

    def event(self, monitor, n=1):
        self.monitors[monitor] += n

    def unspecified(self, reason):
        self.unspec[reason] += 1

    def note(self, what, n=1):
        self.notes[what] += n

    def violation(self, kind, witness):
        """kind: short sub-assertion name.  witness: JSON-safe dict that lets the
        case be re-run (must contain 'case') plus discriminating facts."""
        self.viol_counts[kind] += 1
        # full witnesses are rationed per (kind, mechanism), not per kind: a recorded finding of the same kind must not use up
        # the room an unrelated mechanism needs for its replayable witness
        wkey = kind + '|' + json.dumps(jsafe(witness.get('mech')), sort_keys=True, default=repr)[:300]
        if self._wit_per_kind[wkey] < self.MAX_WITNESS_PER_KIND and len(self._wit_per_kind) <= 400:
            self._wit_per_kind[wkey] += 1
            w = dict(jsafe(witness))
            w['kind'] = kind
            w['shard_seed'] = [self.seed, self.shard]
            self.witnesses.append(w)
        else:
            # keep classification data for *all* violations, compactly
            w = {'kind': kind, 'compact': True}
            for k in ('mech', 'facts'):
                if k in witness:
                    w[k] = jsafe(witness[k])
            self.witnesses.append(w)

    def dump(self):
        return {
            'evaluations': self.evaluations, 'fps': sorted(self.fps),
            'trivial': self.trivial, 'classes': dict(self.classes),
            'monitors': dict(self.monitors), 'unspec': dict(self.unspec),
            'viol_counts': dict(self.viol_counts), 'witnesses': self.witnesses,
            'samples': self.samples, 'notes': dict(self.notes),
            'wall_s': time.time() - self.t0,
        }


class Ctx(object):
    def __init__(self, prop, tier, seed, shard, nshards, params, scratch):
        self.prop, self.tier, self.seed = prop, tier, seed
        self.shard, self.nshards, self.params, self.scratch = shard, nshards, params, scratch
        self.rng = random.Random(seed * 1000003 + shard * 7 + 1)
        self.rec = Recorder(prop, tier, seed, shard)
        self.replay = False

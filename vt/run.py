"""Driver: python -m vt.run <Cxx> <quick|thorough> [--replay FILE]

Splits the workload into shards (separate interpreters, fresh import of tdda from
the working tree), merges the shards' event logs, classifies any refuting
execution against known_findings.json, writes evidence/<id>.json and replay files.
Exit: 0 held (maybe KNOWN-FINDING lines) / 1 VIOLATION / 2 inconclusive.
"""
import collections
import hashlib
import importlib
import json
import os
import subprocess
import sys
import time

from vt import common, findings

VERIF = common.VERIF


def load_check(prop):
    return importlib.import_module('vt.checks.%s' % prop.lower())


def shard_main(argv):
    prop, tier, seed, shard, nshards, out = argv[0], argv[1], int(argv[2]), int(argv[3]), int(argv[4]), argv[5]
    import faulthandler
    faulthandler.enable()
    mod = load_check(prop)
    params = dict(mod.TIERS[tier])
    # wall-clock watchdog by SIGALRM, not faulthandler.dump_traceback_later: the latter's watchdog
    # thread leaves a lock held in every forked child (M-FORK), where any later
    # cancel_dump_traceback_later() - pytest calls it - would wait for ever
    import signal

    def _watchdog(signum, frame):
        faulthandler.dump_traceback()
        sys.stderr.write('Timeout (shard watchdog)!\n')
        sys.stderr.flush()
        os._exit(3)
    signal.signal(signal.SIGALRM, _watchdog)
    signal.alarm(int(params.get('watchdog_s', 3000)))
    scratch = os.path.join(common.SCRATCH, 'shard%d' % shard)
    os.makedirs(scratch, exist_ok=True)
    ctx = common.Ctx(prop, tier, seed, shard, nshards, params, scratch)
    status = 'ok'
    try:
        mod.run_shard(ctx)
    except BaseException as e:  # a harness error is *inconclusive*, never a verdict
        import traceback
        status = 'harness-error: ' + ''.join(traceback.format_exception(type(e), e, e.__traceback__))[-3000:]
    d = ctx.rec.dump()
    d['status'] = status
    with open(out, 'w') as f:
        json.dump(d, f)
    return 0


def replay_main(prop, path):
    mod = load_check(prop)
    w = json.load(open(path))
    scratch = os.path.join(common.SCRATCH, 'replay')
    os.makedirs(scratch, exist_ok=True)
    ctx = common.Ctx(prop, 'quick', 0, 0, 1, dict(mod.TIERS['quick']), scratch)
    ctx.replay = True
    if 'case' not in w:
        print('%s holds the classification of a refuting execution but not its case (%s); re-run `./check %s %s` with VERIF_SEED=%s for full witnesses'
              % (path, w.get('note', 'compact record'), prop, w.get('tier', 'quick'), w.get('seed', 0)))
        return 2
    print('replaying %s case: %s' % (prop, json.dumps(w.get('case'), ensure_ascii=True)[:2000]))
    mod.run_case(ctx, w['case'])
    d = ctx.rec.dump()
    if d['witnesses']:
        for x in d['witnesses']:
            print('REPRODUCED kind=%s facts=%s' % (x['kind'], json.dumps(x.get('facts'), ensure_ascii=True)[:1500]))
            print('  detail: %s' % json.dumps({k: v for k, v in x.items() if k not in ('case',)}, ensure_ascii=True)[:3000])
        print('VIOLATION property=%s replay=%s' % (prop, path))
        return 1
    print('case held on this tree (monitors: %s)' % dict(d['monitors']))
    return 0


def main():
    args = sys.argv[1:]
    if args and args[0] == '--shard':
        return shard_main(args[1:])
    if len(args) < 1:
        print('usage: check <Cxx> <quick|thorough> [--replay FILE]')
        return 2
    prop = args[0].upper()
    if '--replay' in args:
        return replay_main(prop, args[args.index('--replay') + 1])
    tier = os.environ.get('VERIF_TIER') or (args[1] if len(args) > 1 else 'quick')
    if len(args) > 1 and args[1] in ('quick', 'thorough'):
        tier = args[1]
    seed = int(os.environ.get('VERIF_SEED', '0') or 0)
    mod = load_check(prop)
    params = dict(mod.TIERS[tier])
    nshards = int(os.environ.get('VT_SHARDS', params.get('shards', 16)))
    t0 = time.time()
    outdir = os.path.join(common.SCRATCH, 'out')
    os.makedirs(outdir, exist_ok=True)
    procs = []
    first = int(os.environ.get('VT_SHARD_FROM', '0') or 0)      # (maintenance: run shards first..first+nshards-1 of a larger run)
    for s in range(first, first + nshards):
        out = os.path.join(outdir, 'shard%d.json' % s)
        log = open(os.path.join(outdir, 'shard%d.log' % s), 'w')
        p = subprocess.Popen([sys.executable, '-W', 'ignore', '-m', 'vt.run', '--shard', prop, tier,
                              str(seed), str(s), str(first + nshards), out],
                             stdout=log, stderr=subprocess.STDOUT, cwd=VERIF)
        procs.append((s, p, out, log))
    timeout = params.get('watchdog_s', 3000) + 60
    inconclusive = []
    merged = None
    shards = []
    for s, p, out, log in procs:
        try:
            p.wait(timeout=max(5, timeout - (time.time() - t0)))
        except subprocess.TimeoutExpired:
            p.kill()
            inconclusive.append('shard %d: watchdog (wall clock) fired' % s)
            continue
        finally:
            log.close()
        if not os.path.exists(out):
            tail = open(os.path.join(outdir, 'shard%d.log' % s)).read()[-1500:]
            inconclusive.append('shard %d: no result (exit %s): %s' % (s, p.returncode, tail))
            continue
        d = json.load(open(out))
        if d['status'] != 'ok':
            inconclusive.append('shard %d: %s' % (s, d['status']))
        shards.append(d)
    # ---- merge ---------------------------------------------------------
    ev = 0
    fps = set()
    classes = collections.Counter()
    monitors = collections.Counter()
    unspec = collections.Counter()
    viol_counts = collections.Counter()
    notes = collections.Counter()
    witnesses = []
    samples = []
    trivial = 0
    for d in shards:
        ev += d['evaluations']
        fps.update(d['fps'])
        trivial += d['trivial']
        classes.update(d['classes'])
        monitors.update(d['monitors'])
        unspec.update(d['unspec'])
        viol_counts.update(d['viol_counts'])
        notes.update(d['notes'])
        witnesses.extend(d['witnesses'])
        if len(samples) < 6:
            samples.extend(d['samples'][:2])
    samples = samples[:6]
    # ---- deciding monitors must have observed something -----------------
    for m in getattr(mod, 'REQUIRED_MONITORS', []):
        if monitors.get(m, 0) == 0:
            inconclusive.append('deciding monitor %r observed no events' % m)
    for c in getattr(mod, 'REQUIRED_CLASSES', []):
        if not any(k == c or k.startswith(c + '|') or ('|' + c + '|') in ('|' + k + '|') for k in classes):
            inconclusive.append('declared input class %r never produced' % c)
    if ev == 0:
        inconclusive.append('no case executed')
    # ---- classify violations -------------------------------------------
    known = findings.load_known()
    kf_hits = collections.Counter()
    unknown = []
    for w in witnesses:
        fid = findings.classify(prop, w, known)
        if fid:
            kf_hits[fid] += 1
        else:
            unknown.append(w)
    lines = []
    for fid, n in sorted(kf_hits.items()):
        ent = [k for k in known if k['id'] == fid][0]
        lines.append('KNOWN-FINDING: property=%s %s [%s] (%d monitored executions this run)'
                     % (prop, ent['what'], fid, n))
    rdir = os.path.join(VERIF, 'replays', prop)
    vio_lines = []
    seen_mech = set()
    for w in unknown:
        if w.get('compact'):
            continue
        mech = json.dumps([w['kind'], w.get('mech')], sort_keys=True, default=repr)
        if mech in seen_mech:
            continue
        seen_mech.add(mech)
        if len(seen_mech) > 25:
            break
        os.makedirs(rdir, exist_ok=True)
        w = dict(w)
        w['property'] = prop
        w['tier'] = tier
        w['seed'] = seed
        body = json.dumps(w, indent=1, sort_keys=True, ensure_ascii=True, default=repr)
        h = hashlib.sha1(body.encode()).hexdigest()[:12]
        path = os.path.join('replays', prop, '%s.json' % h)
        with open(os.path.join(VERIF, path), 'w') as f:
            f.write(body + '\n')
        vio_lines.append('VIOLATION property=%s replay=%s' % (prop, path))
        vio_lines.append('  # kind=%s mech=%s facts=%s' % (w['kind'], json.dumps(w.get('mech'), default=repr)[:200],
                                                          json.dumps(w.get('facts'), ensure_ascii=True, default=repr)[:400]))
    if unknown and not vio_lines:
        # every refuting execution reached here without its full witness (rationing in the shards): still name one, with the
        # classification data that was kept - exit 1 always comes with a VIOLATION line
        os.makedirs(rdir, exist_ok=True)
        w = dict(unknown[0], property=prop, tier=tier, seed=seed, note='compact record: re-run the tier with this seed for the full witness')
        body = json.dumps(w, indent=1, sort_keys=True, ensure_ascii=True, default=repr)
        path = os.path.join('replays', prop, '%s.json' % hashlib.sha1(body.encode()).hexdigest()[:12])
        with open(os.path.join(VERIF, path), 'w') as f:
            f.write(body + '\n')
        vio_lines.append('VIOLATION property=%s replay=%s' % (prop, path))
        vio_lines.append('  # kind=%s mech=%s (compact)' % (w['kind'], json.dumps(w.get('mech'), default=repr)[:200]))
    n_unknown = len(unknown)
    groups = collections.Counter(json.dumps([w['kind'], w.get('mech')], sort_keys=True, default=repr)[:300] for w in unknown)
    wall = time.time() - t0
    verdict = 'violated' if n_unknown else ('inconclusive' if inconclusive else 'held')
    evidence = {
        'property_id': prop, 'tier': tier, 'seed': seed, 'level': 'exploration',
        'coverage': {
            'evaluations': ev,
            'distinct_nontrivial': len(fps),
            'rule': mod.RULE,
            'samples': samples or [{'note': 'no case ran'}],
            'trivial_cases': trivial,
            'class_matrix': dict(sorted(classes.items())),
            'monitor_events': dict(sorted(monitors.items())),
            'unspecified': dict(sorted(unspec.items())),
            'observations': dict(sorted(notes.items())),
            'known_findings': dict(kf_hits),
            'violation_kinds': dict(viol_counts),
            'shards': len(shards),
            'inconclusive_reasons': inconclusive,
            'verdict': verdict,
            'tdda_tree': common.REPO,
        },
        'assumptions': list(getattr(mod, 'ASSUMPTIONS', [])),
        'wall_s': round(wall, 2),
        'violations': n_unknown,
    }
    os.makedirs(os.path.join(VERIF, 'evidence'), exist_ok=True)
    evpath = os.environ.get('VT_EVIDENCE') or os.path.join(VERIF, 'evidence', '%s.json' % prop)
    with open(evpath, 'w') as f:
        json.dump(evidence, f, indent=1, sort_keys=True, ensure_ascii=True)
        f.write('\n')
    print('%s %s seed=%d: %d monitored executions, %d distinct non-trivial, %d shards, %.1fs'
          % (prop, tier, seed, ev, len(fps), len(shards), wall))
    print('  monitors: ' + ', '.join('%s=%d' % kv for kv in sorted(monitors.items())))
    if unspec:
        print('  unspecified (no verdict): ' + ', '.join('%s=%d' % kv for kv in sorted(unspec.items())))
    for l in lines:
        print(l)
    if n_unknown:
        for l in vio_lines[:24]:
            print(l)
        if len(vio_lines) > 24:
            print('  ... %d more replay files under replays/%s/' % ((len(vio_lines) - 24) // 2, prop))
        print('  violation groups (kind, mechanism -> count):')
        for g, n in groups.most_common(20):
            print('    %6d  %s' % (n, g))
        print('%s: VIOLATED (%d refuting executions not covered by known_findings.json)' % (prop, n_unknown))
        return 1
    if inconclusive:
        for r in inconclusive[:6]:
            print('INCONCLUSIVE: %s' % r[:600])
        if len(inconclusive) > 6:
            print('INCONCLUSIVE: ... and %d more reasons (see evidence file)' % (len(inconclusive) - 6))
        return 2
    print('%s: held on everything observed' % prop)
    return 0


if __name__ == '__main__':
    sys.exit(main())

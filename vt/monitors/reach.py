"""M-REACH: cheap counters that prove which code the workload reached.

wrap_count(owner, name, rec, label) wraps a function/method so each call is counted
in the recorder; sys.monitoring PY_START counters (Python 3.12) give the same for
whole sets of functions selected by qualified name without touching them.
"""
import functools
import sys

_COUNTS = {}


def wrap_count(owner, name, counter, label=None):
    f = owner.__dict__[name] if isinstance(owner, type) else getattr(owner, name)
    label = label or name

    @functools.wraps(f)
    def g(*a, **k):
        counter[label] += 1
        return f(*a, **k)
    setattr(owner, name, g)
    return f


class PyStart(object):
    """Counts entries into functions whose (filename substring, qualname) is listed."""
    TOOL = 4

    def __init__(self, wanted, path_part='/tdda/'):
        self.wanted = set(wanted)
        self.path_part = path_part
        self.counts = {}
        self.on = False

    def start(self):
        mon = getattr(sys, 'monitoring', None)
        if mon is None:
            return False
        try:
            mon.use_tool_id(self.TOOL, 'vt-reach')
        except ValueError:
            return False

        def cb(code, off):
            q = code.co_qualname
            if self.path_part in code.co_filename and q in self.wanted:
                self.counts[q] = self.counts.get(q, 0) + 1
                return None
            return mon.DISABLE
        mon.register_callback(self.TOOL, mon.events.PY_START, cb)
        mon.set_events(self.TOOL, mon.events.PY_START)
        self.on = True
        return True

    def stop(self):
        if self.on:
            mon = sys.monitoring
            mon.set_events(self.TOOL, 0)
            mon.register_callback(self.TOOL, mon.events.PY_START, None)
            mon.free_tool_id(self.TOOL)
            self.on = False

    def flush(self, rec, prefix='reach:'):
        for q, n in self.counts.items():
            rec.event(prefix + q, n)
        self.counts = {}

"""M-CONTRACT: icontract post/pre-conditions attached *from the harness* to the real
tdda functions.  Conditions record into SINK and return True (a raise would abort the
execution being observed); in replay mode (RAISE=True) they raise ContractBroken.

References bound before decoration bypass a contract, so every contract counts its
evaluations in EVALS and a check treats zero as inconclusive.
"""
import collections
import re
import sys

import icontract

EVALS = collections.Counter()     # contract name -> number of evaluations
SINK = []                         # broken-contract records: dicts {contract, facts}
RAISE = False
_attached = set()


class ContractBroken(Exception):
    pass


def drain():
    out = list(SINK)
    del SINK[:]
    return out


def broken(contract, **facts):
    SINK.append({'contract': contract, 'facts': facts})
    if RAISE:
        raise ContractBroken('%s: %r' % (contract, facts))
    return True


def _patch_aliases(old, new):
    """Rebind every `from m import f` alias of old in loaded tdda modules."""
    n = 0
    for name, mod in list(sys.modules.items()):
        if not name.startswith('tdda') or mod is None:
            continue
        for k, v in list(vars(mod).items()):
            if v is old:
                setattr(mod, k, new)
                n += 1
    return n


def ensure(owner, name, cond, snapshots=()):
    f = owner.__dict__[name] if isinstance(owner, type) else getattr(owner, name)
    raw = f
    if isinstance(f, (staticmethod, classmethod)):
        raise TypeError('not supported')
    g = icontract.ensure(cond, error=ContractBroken)(f)
    for snap, sname in snapshots:
        g = icontract.snapshot(snap, name=sname)(g)
    setattr(owner, name, g)
    if not isinstance(owner, type):
        _patch_aliases(raw, g)
    return g


def require(owner, name, cond):
    f = owner.__dict__[name] if isinstance(owner, type) else getattr(owner, name)
    g = icontract.require(cond, error=ContractBroken)(f)
    setattr(owner, name, g)
    if not isinstance(owner, type):
        _patch_aliases(f, g)
    return g


# ---------------------------------------------------------------------------
# rexpy
# ---------------------------------------------------------------------------
FLAGS = re.UNICODE | re.DOTALL
_UNIVERSE = None


def universe():
    global _UNIVERSE
    if _UNIVERSE is None:
        _UNIVERSE = [chr(i) for i in range(0, 0x250)] + list('٣४０²①⒈³½〇Ⅷⅳ 　日😀𝟘')
    return _UNIVERSE


def attach_rexpy():
    if 'rexpy' in _attached:
        return
    _attached.add('rexpy')
    from tdda.rexpy import rexpy

    def bracket_matches_exactly_its_chars(chars, dialect, inner, result):
        EVALS['escaped_bracket'] += 1
        if inner or dialect in ('javascript', 'ruby') or not chars:
            return True
        try:
            c = re.compile('^%s$' % result, FLAGS)
        except re.error as e:
            return broken('escaped_bracket', chars=''.join(chars), result=result, error=str(e))
        want = set(chars)
        got = set(u for u in universe() if c.match(u))
        if got != want:
            return broken('escaped_bracket', chars=''.join(chars), result=result,
                          missing=''.join(sorted(want - got)), extra=''.join(sorted(got - want))[:20])
        return True

    ensure(rexpy, 'escaped_bracket', bracket_matches_exactly_its_chars)

    def extract_post(self):
        """All of C03/C13 that can be read off the Extractor after extract()."""
        if (self.dialect or 'perl') not in ('perl', 'portable', 'grep'):
            return True                      # posix / java / ruby spellings are not readable by Python's re: no verdict
        EVALS['Extractor.extract'] += 1
        res = self.results
        rex = list(res.rex) if res is not None else []
        pruning = (self.max_patterns is not None) or (self.min_strings_per_pattern or 1) > 1
        if not hasattr(self, 'all_examples'):
            return True                      # caller-supplied check function: no example list
        targets = list(self.all_examples.strings)
        comp = []
        for r in rex:
            try:
                comp.append(re.compile(r, FLAGS))
            except re.error as e:
                return broken('extract.compiles', rex=r, error=str(e))
        if not targets and rex:
            broken('extract.none_for_empty', rex=rex[:3])
        un = [s for s in targets if not any(c.match(s) for c in comp)]
        if un and not pruning:
            broken('extract.covers', unmatched=un[:5], n_unmatched=len(un), rex=rex[:6],
                   dialect=self.dialect or 'perl', n_examples=len(targets),
                   sampled=len(targets) > self.size.do_all)
        return True

    ensure(rexpy.Extractor, 'extract', extract_post)


# ---------------------------------------------------------------------------
def attach(*groups):
    for g in groups:
        globals()['attach_' + g]()


# ---------------------------------------------------------------------------
# rexpy coverage (C18)
# ---------------------------------------------------------------------------
def attach_rexcoverage():
    if 'rexcoverage' in _attached:
        return
    _attached.add('rexcoverage')
    import copy
    from tdda.rexpy import rexpy

    def coverage_counts_are_exact(patterns, examples, dedup, result):
        EVALS['rex_coverage'] += 1
        strings, freqs = list(examples.strings), list(examples.freqs)
        for p, got in zip(patterns, result):
            try:
                c = re.compile(p, FLAGS)
            except re.error:
                return True
            want = sum((1 if dedup else n) for s, n in zip(strings, freqs) if c.match(s))
            if want != got:
                return broken('rex_coverage', rex=p, got=got, want=want, dedup=bool(dedup))
        if len(result) != len(patterns):
            return broken('rex_coverage.len', got=len(result), want=len(patterns))
        return True

    ensure(rexpy, 'rex_coverage', coverage_counts_are_exact)

    def snap_matrix(matrix):
        return copy.deepcopy(matrix)

    def credit_assignment_is_exact(patterns, matrix, deduped, indexes, examples, sort_on_deduped, result, OLD):
        """Replays the greedy credit assignment on the matrix as it was on entry: every
        example is credited to exactly the first listed expression that matches it."""
        EVALS['matrices2incremental_coverage'] += 1
        m0 = OLD.m0
        freqs = list(examples.freqs)
        uncredited = set(range(len(m0)))
        pos = {p: i for i, p in enumerate(patterns)}
        prev = None
        for rex, cov in result.items():
            p = pos.get(rex)
            if p is None:
                return broken('incr.unknown_pattern', rex=rex)
            newly = [i for i in uncredited if m0[i][p]]
            incr = sum(freqs[i] for i in newly)
            if cov.incr != incr or cov.incr_uniq != len(newly):
                return broken('incr.credit', rex=rex, got=[cov.incr, cov.incr_uniq], want=[incr, len(newly)])
            n = sum(freqs[i] for i in range(len(m0)) if m0[i][p])
            nu = sum(1 for i in range(len(m0)) if m0[i][p])
            if cov.n != n or cov.n_uniq != nu:
                return broken('incr.totals', rex=rex, got=[cov.n, cov.n_uniq], want=[n, nu])
            key = cov.incr_uniq if sort_on_deduped else cov.incr
            if prev is not None and key > prev:
                return broken('incr.order', rex=rex, got=key, prev=prev)
            prev = key
            uncredited.difference_update(newly)
        left = [i for i in uncredited if any(m0[i])]
        if left:
            return broken('incr.uncredited', n=len(left))
        return True

    g = icontract.ensure(credit_assignment_is_exact, error=ContractBroken)(rexpy.matrices2incremental_coverage)
    g = icontract.snapshot(snap_matrix, name='m0')(g)
    old = rexpy.matrices2incremental_coverage
    rexpy.matrices2incremental_coverage = g
    _patch_aliases(old, g)


# ---------------------------------------------------------------------------
# text comparison (C04/C15): oracle as a post-condition of the real check_strings
# ---------------------------------------------------------------------------
TEXT_LOG = []       # one record per check_strings call (drained by the check)


def attach_textcmp():
    if 'textcmp' in _attached:
        return
    _attached.add('textcmp')
    from tdda.referencetest import checkfiles
    from vt.oracles import textcmp

    def snap_inputs(actual, expected):
        return (list(actual), list(expected))

    def verdict_matches_documented_rule(self, actual, expected, lstrip, rstrip, ignore_substrings,
                                        ignore_patterns, remove_lines, preprocess, max_permutation_cases,
                                        result, OLD):
        EVALS['check_strings'] += 1
        a0, e0 = OLD.inputs
        opts = dict(lstrip=lstrip, rstrip=rstrip, ignore_substrings=ignore_substrings,
                    ignore_patterns=ignore_patterns, remove_lines=remove_lines,
                    preprocess_fn=preprocess, max_permutation_cases=max_permutation_cases)
        try:
            if any(isinstance(x, str) and x.endswith('\n') for x in a0):
                # lines handed over with their terminators (readlines() style): judged by the caller on the texts themselves
                v, info = 'unspecified', {'why': 'lines given with their terminators'}
            else:
                v, info = textcmp.verdict(a0, e0, opts)
        except Exception as ex:           # oracle trouble is never a verdict
            v, info = 'unspecified', {'why': 'oracle error %r' % ex}
        got = 'pass' if result.failures == 0 else 'fail'
        rec = {'oracle': v, 'got': got, 'info': info, 'actual': a0, 'expected': e0}
        TEXT_LOG.append(rec)
        if v != 'unspecified' and v != got:
            return broken('check_strings', oracle=v, got=got, info=info, actual=a0[:12], expected=e0[:12])
        return True

    f = checkfiles.FilesComparison.check_strings
    g = icontract.ensure(verdict_matches_documented_rule, error=ContractBroken)(f)
    g = icontract.snapshot(snap_inputs, name='inputs')(g)
    checkfiles.FilesComparison.check_strings = g


# ---------------------------------------------------------------------------
# CSVW date-format translation (C16)
# ---------------------------------------------------------------------------
def attach_csvwdate():
    if 'csvwdate' in _attached:
        return
    _attached.add('csvwdate')
    import datetime
    from tdda.serial import csvw
    from vt.oracles import csvwdate as CD

    def translation_reads_back_the_instants(fmt, extensions, result):
        EVALS['csvw_date_format_to_md_date_format'] += 1
        if '%' in fmt or extensions or not fmt:
            return True
        toks = CD.tokenize(fmt)
        if any(k == 'lit' and t.isalpha() and t not in 'T' for k, t in toks):
            return True                  # letters outside the documented family: not judged
        EVALS['csvw_date_format:judged'] += 1
        for dt in CD.INSTANTS:
            text = CD.render(fmt, dt)
            want = CD.carried(fmt, dt)
            try:
                if result == 'ISO8601':
                    # 'ISO8601' is the pandas parsing mode, so pandas is the reader to ask
                    import pandas as pd
                    got = pd.to_datetime(text, format='ISO8601').to_pydatetime()
                else:
                    got = datetime.datetime.strptime(text, result)
            except ValueError as e:
                return broken('csvw_date_format', fmt=fmt, translated=result, text=text, error=str(e)[:100])
            if got != want:
                return broken('csvw_date_format', fmt=fmt, translated=result, text=text, parsed=str(got), written=str(want))
        return True

    ensure(csvw, 'csvw_date_format_to_md_date_format', translation_reads_back_the_instants)

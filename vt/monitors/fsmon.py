"""M-FS: file-system monitor = sys.addaudithook event log (every Python-level open for
writing, remove, rename, mkdir, rmdir, truncate, chmod, utime, link, symlink, shutil op)
plus tree snapshots (path -> size, mtime_ns, inode, sha1) as a completeness backstop for
writes the audit hook cannot see (native writers, child processes).
"""
import hashlib
import os
import sys

EVENTS = []          # (kind, path, extra)
_on = False
_installed = False
WRITE_EVENTS = {'os.remove', 'os.rename', 'os.mkdir', 'os.rmdir', 'os.truncate', 'os.chmod', 'os.utime',
                'os.link', 'os.symlink', 'shutil.copyfile', 'shutil.move', 'shutil.rmtree', 'shutil.copytree',
                'os.chown', 'shutil.copymode', 'shutil.copystat'}


def _hook(event, args):
    if not _on:
        return
    if event == 'open':
        path, mode, flags = args[0], args[1], args[2]
        if isinstance(path, int):
            return
        writing = False
        if mode is not None:
            writing = any(c in mode for c in 'wax+')
        elif flags is not None:
            writing = bool(flags & (os.O_WRONLY | os.O_RDWR | os.O_CREAT | os.O_TRUNC | os.O_APPEND))
        if writing:
            EVENTS.append(('open-write', os.fsdecode(path) if isinstance(path, (bytes, str)) else str(path), mode))
    elif event in WRITE_EVENTS:
        p = args[0] if args else None
        try:
            p = os.fsdecode(p) if isinstance(p, (bytes, str)) else str(p)
        except Exception:
            p = str(p)
        extra = None
        if event in ('os.rename', 'os.link', 'os.symlink', 'shutil.copyfile', 'shutil.move', 'shutil.copytree') and len(args) > 1:
            extra = str(args[1])
        EVENTS.append((event, p, extra))


def install():
    global _installed
    if not _installed:
        sys.addaudithook(_hook)
        _installed = True


class watch(object):
    """with fsmon.watch() as w: ...;  w.events -> list of write-type events inside the block."""

    def __enter__(self):
        global _on
        install()
        self.start = len(EVENTS)
        _on = True
        return self

    def __exit__(self, *a):
        global _on
        _on = False
        self.events = [(k, os.path.abspath(p) if p else p, x) for k, p, x in EVENTS[self.start:]]
        del EVENTS[self.start:]
        return False

    def written_paths(self):
        out = set()
        for k, p, x in self.events:
            out.add(p)
            if x and k in ('os.rename', 'shutil.move', 'shutil.copyfile', 'os.link', 'os.symlink', 'shutil.copytree'):
                out.add(os.path.abspath(x))
        return out


def snapshot(root, with_hash=True):
    """{relative path: (size, mtime_ns, inode, sha1)} for every file below root (dirs as ('dir',))."""
    out = {}
    if not os.path.exists(root):
        return out
    for dp, dns, fns in os.walk(root):
        for d in dns:
            out[os.path.relpath(os.path.join(dp, d), root) + '/'] = ('dir',)
        for fn in fns:
            p = os.path.join(dp, fn)
            try:
                st = os.lstat(p)
                h = None
                if with_hash and os.path.isfile(p) and not os.path.islink(p):
                    with open(p, 'rb') as f:
                        h = hashlib.sha1(f.read()).hexdigest()
                out[os.path.relpath(p, root)] = (st.st_size, st.st_mtime_ns, st.st_ino, h)
            except OSError:
                out[os.path.relpath(p, root)] = ('unreadable',)
    return out


def diff(before, after):
    created = sorted(set(after) - set(before))
    removed = sorted(set(before) - set(after))
    modified = sorted(k for k in set(before) & set(after) if before[k] != after[k])
    return {'created': created, 'removed': removed, 'modified': modified}

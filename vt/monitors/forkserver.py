"""M-FORK: run real command lines as real processes, cheaply.

The calling (shard) process has already imported pandas and tdda; fork_run() forks it, and the
child becomes the command: it sets sys.argv, cwd and environment, redirects fds 0/1/2 to files,
runs the real entry point (a callable, or a script path through runpy as __main__) and exits
with the status the interpreter would give (SystemExit code; an uncaught exception prints its
traceback to fd 2 and exits 1).  The parent collects the true exit status with waitpid.

real_run() runs the same command as a genuine `python ...` subprocess; checks use it on a
sample of cases and require agreement (fidelity cross-check).
"""
import os
import signal
import subprocess
import sys
import time
import traceback


_warm = False


def warm(extra=()):
    """Import in the parent everything a forked command would otherwise import itself."""
    global _warm
    import importlib
    for m in extra:
        try:
            importlib.import_module(m)
        except Exception:
            pass
    if _warm:
        return
    _warm = True
    for m in ('pandas', 'numpy', 'pyarrow', 'pyarrow.parquet', 'unittest', 'chardet', 'tdda', 'tdda.referencetest',
              'tdda.referencetest.referencetestcase', 'tdda.referencetest.gentest', 'tdda.constraints',
              'tdda.constraints.console', 'tdda.constraints.pd.discover', 'tdda.constraints.pd.verify',
              'tdda.constraints.pd.detect', 'tdda.rexpy', 'tdda.serial.reader'):
        try:
            importlib.import_module(m)
        except Exception:
            pass


class Result(object):
    def __init__(self, status, out, err, timed_out=False):
        self.status, self.out, self.err, self.timed_out = status, out, err, timed_out

    def __repr__(self):
        return 'Result(status=%r, out=%r, err=%r)' % (self.status, self.out[-300:], self.err[-300:])


def _child(entry, argv, cwd, env, stdin_path, out_path, err_path):
    try:
        import signal
        signal.alarm(0)
        signal.signal(signal.SIGALRM, signal.SIG_DFL)
        if cwd:
            os.chdir(cwd)
        if env:
            for k, v in env.items():
                if v is None:
                    os.environ.pop(k, None)
                else:
                    os.environ[k] = v
        fd0 = os.open(stdin_path or os.devnull, os.O_RDONLY)
        fd1 = os.open(out_path, os.O_WRONLY | os.O_CREAT | os.O_TRUNC, 0o644)
        fd2 = os.open(err_path, os.O_WRONLY | os.O_CREAT | os.O_TRUNC, 0o644)
        os.dup2(fd0, 0)
        os.dup2(fd1, 1)
        os.dup2(fd2, 2)
        sys.stdin = open(0, 'r', closefd=False)
        sys.stdout = open(1, 'w', closefd=False)
        sys.stderr = open(2, 'w', closefd=False)
        sys.__stdout__, sys.__stderr__ = sys.stdout, sys.stderr
        sys.argv = list(argv)
        status = 0
        try:
            if callable(entry):
                r = entry()
                if isinstance(r, int):
                    status = r
            else:
                import runpy
                sys.path.insert(0, os.path.dirname(os.path.abspath(entry)))
                runpy.run_path(entry, run_name='__main__')
        except SystemExit as e:
            c = e.code
            if c is None:
                status = 0
            elif isinstance(c, int):
                status = c
            else:
                print(c, file=sys.stderr)
                status = 1
        except BaseException:
            traceback.print_exc()
            status = 1
        try:
            sys.stdout.flush()
            sys.stderr.flush()
        except Exception:
            pass
        os._exit(status & 0xFF)
    except BaseException:
        try:
            traceback.print_exc()
        except Exception:
            pass
        os._exit(120)


def fork_run(entry, argv, cwd=None, env=None, stdin_bytes=None, scratch=None, timeout=120):
    """entry: callable or path of a script to run as __main__."""
    scratch = scratch or os.environ.get('TMPDIR') or '/var/tmp'
    tag = '%d_%d' % (os.getpid(), int(time.time() * 1e6) % 10 ** 9)
    out_path = os.path.join(scratch, 'fk_%s.out' % tag)
    err_path = os.path.join(scratch, 'fk_%s.err' % tag)
    stdin_path = None
    if stdin_bytes is not None:
        stdin_path = os.path.join(scratch, 'fk_%s.in' % tag)
        with open(stdin_path, 'wb') as f:
            f.write(stdin_bytes)
    warm()
    sys.stdout.flush()
    sys.stderr.flush()
    pid = os.fork()
    if pid == 0:
        _child(entry, argv, cwd, env, stdin_path, out_path, err_path)
    t0 = time.time()
    timed_out = False
    while True:
        wpid, st = os.waitpid(pid, os.WNOHANG)
        if wpid:
            break
        if time.time() - t0 > timeout:
            os.kill(pid, signal.SIGKILL)
            os.waitpid(pid, 0)
            timed_out = True
            st = -1
            break
        time.sleep(0.002)
    if timed_out:
        status = None
    elif os.WIFEXITED(st):
        status = os.WEXITSTATUS(st)
    else:
        status = -os.WTERMSIG(st)

    def rd(p):
        try:
            with open(p, 'rb') as f:
                return f.read().decode('utf-8', 'replace')
        finally:
            try:
                os.unlink(p)
            except OSError:
                pass
    out, err = rd(out_path), rd(err_path)
    if stdin_path:
        os.unlink(stdin_path)
    return Result(status, out, err, timed_out)


def real_run(pyargs, cwd=None, env=None, stdin_bytes=None, timeout=300):
    """Genuine subprocess: python <pyargs...> with the harness's PYTHONPATH."""
    e = dict(os.environ)
    for k, v in (env or {}).items():
        if v is None:
            e.pop(k, None)
        else:
            e[k] = v
    try:
        p = subprocess.run([sys.executable, '-W', 'ignore'] + list(pyargs), cwd=cwd, env=e, input=stdin_bytes,
                           stdout=subprocess.PIPE, stderr=subprocess.PIPE, timeout=timeout)
    except subprocess.TimeoutExpired:
        return Result(None, '', '', True)
    return Result(p.returncode, p.stdout.decode('utf-8', 'replace'), p.stderr.decode('utf-8', 'replace'))

"""M-PRNG: observe Python's global random state around a call and count random.sample uses."""
import random

CALLS = {'sample': 0, 'log': []}
_orig = None


def install():
    global _orig
    if _orig is not None:
        return
    _orig = random.sample
    # first-time imports may themselves draw from the global PRNG: do them now, outside
    # every observed window
    import pandas  # noqa
    import numpy  # noqa
    from tdda.rexpy import rexpy  # noqa
    rexpy.pdextract(pandas.Series(['a', 'b'], dtype=object))

    def sample(population, k, *a, **kw):
        CALLS['sample'] += 1
        if len(CALLS['log']) < 50:
            CALLS['log'].append((len(population), k))
        return _orig(population, k, *a, **kw)
    random.sample = sample


def around(fn, prior_seed):
    """Seed the global PRNG with prior_seed, call fn, return (result, state_unchanged, n_sample_calls)."""
    random.seed(prior_seed)
    s0 = random.getstate()
    n0 = CALLS['sample']
    out = fn()
    s1 = random.getstate()
    return out, s0 == s1, CALLS['sample'] - n0

import sys, itertools, datetime, warnings, io, json, os, tempfile, collections, traceback
sys.path.insert(0,'/repo')
warnings.simplefilter('ignore')
import pandas as pd, numpy as np
from tdda.serial.csvw import csvw_date_format_to_md_date_format
from tdda.serial.reader import csv2pandas
def render(dt, fmt):
    # CSVW/UAX35 subset renderer, longest-token-first
    out=''; i=0
    toks=[('yyyy',lambda d:'%04d'%d.year),('yy',lambda d:'%02d'%(d.year%100)),('MM',lambda d:'%02d'%d.month),('M',lambda d:str(d.month)),('dd',lambda d:'%02d'%d.day),('d',lambda d:str(d.day)),('HH',lambda d:'%02d'%d.hour),('mm',lambda d:'%02d'%d.minute),('ss',lambda d:'%02d'%d.second),('SSS',lambda d:'%03d'%(d.microsecond//1000)),('SS',lambda d:'%02d'%(d.microsecond//10000)),('S',lambda d:'%01d'%(d.microsecond//100000))]
    while i<len(fmt):
        for t,f in toks:
            if fmt.startswith(t,i): out+=f(dt); i+=len(t); break
        else: out+=fmt[i]; i+=1
    return out
dates=['yyyy-MM-dd','dd/MM/yyyy','d/M/yyyy','MM.dd.yyyy','dd-MM-yy','yyyyMMdd','d.M.yy','M/d/yyyy','dd MM yyyy','yyyy/MM/dd']
times=['HH:mm','HH:mm:ss','HH:mm:ss.S','HH:mm:ss.SS','HH:mm:ss.SSS','HHmmss','HH.mm.ss']
seps=['T',' ']
vals=[datetime.datetime(2021,3,4,5,6,7,890000), datetime.datetime(1999,12,31,23,59,58,100000), datetime.datetime(2004,2,29,0,0,0,0), datetime.datetime(2030,11,1,12,30,45,120000)]
res=collections.Counter(); wit={}
tmp=tempfile.mkdtemp()
def trial(fmt, kind):
    pf=csvw_date_format_to_md_date_format(fmt)
    # precision of fmt
    def trunc(d):
        us = d.microsecond
        if 'SSS' in fmt: us = us//1000*1000
        elif 'SS' in fmt: us=us//10000*10000
        elif 'S' in fmt: us=us//100000*100000
        else: us=0
        sec = d.second if 'ss' in fmt else 0
        if kind=='date': return datetime.datetime(d.year,d.month,d.day)
        return d.replace(second=sec, microsecond=us)
    rows=[render(v,fmt) for v in vals]
    p=os.path.join(tmp,'t.csv'); open(p,'w').write('id,when\n'+''.join('%d,%s\n'%(i,r) for i,r in enumerate(rows)))
    md={'@context':'http://www.w3.org/ns/csvw','url':'t.csv','tableSchema':{'columns':[{'name':'id','datatype':'integer'},{'name':'when','datatype':{'base':'datetime' if kind!='date' else 'date','format':fmt}}]}}
    mp=os.path.join(tmp,'t.csv-metadata.json'); json.dump(md,open(mp,'w'))
    try:
        df=csv2pandas(p, mdpath=mp, verbosity=0)
        got=[x.to_pydatetime() if not pd.isnull(x) else None for x in df['when']]
        want=[trunc(v) for v in vals]
        key='ok' if got==want and str(df['when'].dtype).startswith('datetime64') else ('WRONG', fmt, pf, str(df['when'].dtype))
        if key!='ok': wit[key]=(rows,got[:2],want[:2])
    except Exception as e:
        key=('EXC',type(e).__name__,fmt,pf, str(e)[:80])
    res[key]+=1
for d in dates: trial(d,'date')
for d in dates:
    for s in seps:
        for t in times: trial(d+s+t,'datetime')
for k,v in sorted(res.items(),key=str): print(v,k, wit.get(k,''))

import sys, re, random, collections, os, tempfile, io, contextlib, traceback, shutil
sys.path.insert(0, __import__('os').environ.get('VT_REPO','/repo'))
from tdda.referencetest.checkfiles import FilesComparison
rng = random.Random(int(sys.argv[1])); N=int(sys.argv[2])
tmp = tempfile.mkdtemp()
fc = FilesComparison(verbose=False, tmp_dir=tmp)
WORDS = ['alpha','beta','x1','x22',' lead','trail ','\ttab','2020-01-02','id=17','id=9','', 'ünï','SKIP me','v1.2','v1.3','a b','a  b']
def model(actual, expected, lstrip, rstrip, subs, pats, rem, mpc):
    """three-valued: True=must pass, False=must fail, None=unspecified"""
    def norm(s):
        if lstrip: s=s.lstrip()
        if rstrip: s=s.rstrip()
        return s
    a=list(actual); e=list(expected)
    # trailing empty element dropped (documented join/split convention): treat as unspecified if it matters
    if rem:
        a=[l for l in a if not any(r in l for r in rem)]
        e=[l for l in e if not any(r in l for r in rem)]
    if len(a)!=len(e): return False
    cps=[re.compile(p) for p in (pats or [])]
    def excused(x,y):
        if any(s in y for s in (subs or [])): return True
        return equiv(x,y,0)
    def equiv(x,y,depth):
        if x==y: return True
        if depth>6: return None
        for p in (pats or []):
            # try all occurrences? model: exists a match of p in both such that left/right parts equiv
            for mx in re.finditer(p, x):
                for my in re.finditer(p, y):
                    l = equiv(x[:mx.start()], y[:my.start()], depth+1)
                    r = equiv(x[mx.end():], y[my.end():], depth+1)
                    if l and r: return True
        return False
    bad=[i for i in range(len(a)) if norm(a[i])!=norm(e[i]) and not excused(a[i],e[i])]
    if not bad: return True
    if len(bad)<=mpc and sorted(norm(a[i]) for i in bad)==sorted(norm(e[i]) for i in bad): return True
    return False
res=collections.Counter(); wit={}
for it in range(N):
    n=rng.randint(0,6)
    exp=[rng.choice(WORDS) for _ in range(n)]
    act=list(exp)
    # mutate
    for _ in range(rng.choice([0,0,1,1,2])):
        op=rng.choice(['chg','ins','del','swap','ws','num'])
        if op=='chg' and act: act[rng.randrange(len(act))]=rng.choice(WORDS)
        elif op=='ins': act.insert(rng.randint(0,len(act)), rng.choice(WORDS))
        elif op=='del' and act: del act[rng.randrange(len(act))]
        elif op=='swap' and len(act)>1:
            i,j=rng.sample(range(len(act)),2); act[i],act[j]=act[j],act[i]
        elif op=='ws' and act:
            i=rng.randrange(len(act)); act[i]=rng.choice([' ','\t',''])+act[i]+rng.choice([' ','','  '])
        elif op=='num' and act:
            i=rng.randrange(len(act)); act[i]=re.sub(r'\d+', lambda m: str(rng.randint(0,99)), act[i])
    # avoid trailing-empty ambiguity
    if (act and act[-1]=='') or (exp and exp[-1]==''): continue
    kw=dict(lstrip=rng.random()<0.3, rstrip=rng.random()<0.3,
            ignore_substrings=rng.choice([None,None,['id='],['SKIP'],['x']]),
            ignore_patterns=rng.choice([None,None,[r'\d+'],[r'v\d\.\d'],[r'\d{4}-\d\d-\d\d', r'id=\d+'], [r'^x\d+$']]),
            remove_lines=rng.choice([None,None,['SKIP'],['beta','alpha']]),
            max_permutation_cases=rng.choice([0,0,1,2,3]))
    want=model(act,exp,kw['lstrip'],kw['rstrip'],kw['ignore_substrings'],kw['ignore_patterns'],kw['remove_lines'],kw['max_permutation_cases'])
    try:
        with contextlib.redirect_stdout(io.StringIO()), contextlib.redirect_stderr(io.StringIO()):
            r=fc.check_strings(list(act),list(exp),create_temporaries=False,**kw)
        got = r.failures==0
    except Exception as e:
        tb=traceback.extract_tb(e.__traceback__); loc=[f for f in tb if '/repo/' in f.filename][-1]
        key=('EXC',type(e).__name__,'%s:%d'%(loc.filename.split('/repo/')[1],loc.lineno)); res[key]+=1; wit.setdefault(key,(act,exp,kw)); continue
    if want is None: key='unspec'
    elif want==got: key='agree-pass' if got else 'agree-fail'
    else:
        key=('MISMATCH','model=%s impl=%s'%(want,got), tuple(k for k,v in kw.items() if v))
    res[key]+=1; wit.setdefault(key,(act,exp,kw))
for k,v in sorted(res.items(),key=str):
    print(v,k); 
    if not isinstance(k,str): print('   ',wit[k])
shutil.rmtree(tmp)

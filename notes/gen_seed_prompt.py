import json, os, sys, glob
R = 11
props = {json.loads(l)['id']: json.loads(l) for l in open('/verif/properties.jsonl')}
tmpl = open('/verif/notes/seed_prompt_rounds6-10_example_C01.txt').read()
head, rest = tmpl.split('THE PROPERTY (C01', 1)
_, rest = rest.split('YOUR WORKSPACE', 1)
ws, rest = rest.split('ALREADY TAKEN', 1)
_, tail = rest.split('THE ADVERSARY', 1)
for pid in sys.argv[1:]:
    p = props[pid]
    anchors = p['anchors']['files']
    if isinstance(anchors, list):
        anchors = ', '.join(a if isinstance(a, str) else (a.get('file') or a.get('path') or json.dumps(a)) for a in anchors)
    taken = []
    for i, d in enumerate(sorted(glob.glob('/verif/seeded/%s-*' % pid)), 1):
        n = open(d + '/notes.md').read().strip().splitlines()
        first = n[0].lstrip('# ').strip()
        nxt = ' '.join(x.strip() for x in n[1:6] if x.strip())[:130]
        taken.append('  (%d) %s - %s...' % (i, first, nxt))
    txt = (head + 'THE PROPERTY (%s: %s)\n%s\nScope ("for all"): %s\nCode the property is anchored in (start reading here): %s\n\nYOUR WORKSPACE' % (pid, p['title'], p['statement'], p['quantifier']['text'], anchors)
           + ws.replace('wt10-C01', 'wt11-' + pid)
           + 'ALREADY TAKEN - choose something in a DIFFERENT part of the behaviour the property covers (another function, another file of those listed, another option, another entry point, another input class). Previous contributors already seeded these changes, and the watcher has since learnt to notice every one of them; stay away from all of them and from their close relatives:\n'
           + '\n'.join(taken) + '\n\nTHE ADVERSARY' + tail.replace('wt10-C01', 'wt11-' + pid).replace('seed-out10/C01', 'seed-out11/' + pid))
    open('/var/tmp/prompt-%s.txt' % pid, 'w').write(txt)
    print(pid, len(txt))

import sys, re, random, collections, traceback, io, contextlib
sys.path.insert(0, __import__('os').environ.get('VT_REPO','/repo'))
from tdda.rexpy import extract, Extractor
from tdda.rexpy.rexpy import Size
rng = random.Random(int(sys.argv[1]))
N = int(sys.argv[2])
ALPH = list('abzAZ019 -^.*()[]\\$+?|{}"\'_,:/#!~&=<>;@%`') + ['é','日','²','٣','\t','\n','\r','\x0b','\x1c','\x85','\xa0',' ','Ⅷ','ß','½','①','\x00','\x7f','ǅ','İ']
FLAGS = re.UNICODE | re.DOTALL
def rstr(alph):
    return ''.join(rng.choice(alph) for _ in range(rng.randint(0,7)))
res = collections.Counter(); wit={}
for it in range(N):
    alph = rng.sample(ALPH, rng.randint(1, 8)) if rng.random()<0.7 else ALPH
    xs = [rstr(alph) for _ in range(rng.choice([1,2,3,5,12,40]))]
    kw = dict(tag=rng.random()<0.3, strip=rng.random()<0.2, remove_empties=rng.random()<0.3,
              extra_letters=rng.choice([None,None,'_','-','.','_-','_.-']),
              variableLengthFrags=rng.random()<0.3, dialect=rng.choice(['perl','portable','grep']))
    if rng.random()<0.4:
        kw['size']=Size(do_all=rng.choice([1,2,5]), do_all_exceptions=rng.choice([1,2,5]), n_per_length=rng.choice([1,2]), max_sampled_attempts=rng.choice([1,2]))
        kw['seed']=rng.choice([None,1,2])
    key='ok'
    try:
        with contextlib.redirect_stdout(io.StringIO()):
            rx = extract(list(xs), **kw)
        crs=[]
        for r in rx:
            try: crs.append(re.compile(r, FLAGS))
            except re.error as e: key=('uncompilable', str(e)[:30]); break
        else:
            targets = [x.strip() if kw['strip'] else x for x in xs]
            targets = [x for x in targets if not (kw['remove_empties'] and x=='')]
            un = [x for x in targets if not any(c.fullmatch(x) for c in crs)]
            un2 = [x for x in targets if not any(re.match(c, x) for c in crs)]
            if un2: key=('unmatched(re.match)', kw['dialect'], 'sampled' if 'size' in kw else '')
            elif un: key=('unmatched only by fullmatch', kw['dialect'])
            else:
                useless=[r for r,c in zip(rx,crs) if not any(re.match(c,x) for x in targets)]
                if useless: key=('useless-rex',)
                elif len(set(rx))!=len(rx): key=('dup-rex',)
                elif len(rx)>len(set(targets)): key=('too-many',)
    except Exception as e:
        tb = traceback.extract_tb(e.__traceback__)
        loc = [f for f in tb if '/repo/' in f.filename][-1]
        key=('EXC',type(e).__name__, '%s:%d'%(loc.filename.split('/repo/')[1],loc.lineno))
    res[key]+=1
    if key!='ok' and key not in wit: wit[key]=(xs[:8], {k:(v if k!='size' else vars(v)) for k,v in kw.items()}, rx if 'rx' in dir() else None, (un2 or un)[:3] if key[0].startswith('unmatched') else None)
for k,v in sorted(res.items(), key=str):
    print(v,k)
    if k!='ok': print('    ', wit[k])

import sys, warnings, datetime, json, traceback, random, io, contextlib, collections
sys.path.insert(0,'/repo')
import numpy as np, pandas as pd
from tdda.constraints import discover_df, verify_df, detect_df
warnings.simplefilter('ignore')
rng = random.Random(int(sys.argv[1]) if len(sys.argv)>1 else 0)
ALPH = ['a','b','Z','0','9',' ','-','^','.','*','(',')','[',']','\\','$','+','?','|','{','}','"',"'",'é','日','²','٣','\t','\n','_',',',':','/','Ⅷ','ß']
def rstr():
    return ''.join(rng.choice(ALPH) for _ in range(rng.randint(0,6)))
def nullify(vals, nullv):
    p = rng.choice([0,0,0.2,0.9,1.0])
    return [nullv if rng.random()<p else v for v in vals]
def gen_col(n):
    kind = rng.choice(['int','uint','Int64','float','bool','boolobj','boolean','strobj','cat','dt','dttz','dateobj'])
    if kind=='int':
        return kind, pd.Series([rng.choice([0,1,-1,rng.randint(-5,5),rng.randint(-2**62,2**62)]) for _ in range(n)], dtype=rng.choice(['int64','int32','int8']) if False else 'int64')
    if kind=='uint':
        return kind, pd.Series([rng.choice([0,1,rng.randint(0,2**63+5)]) for _ in range(n)], dtype='uint64')
    if kind=='Int64':
        return kind, pd.Series(pd.array(nullify([rng.randint(-5,5) for _ in range(n)], None), dtype='Int64'))
    if kind=='float':
        return kind, pd.Series(nullify([rng.choice([0.0,-0.0,1.5,-1.5,np.inf,-np.inf,1e308,-1e308,5e-324,rng.uniform(-3,3), float(rng.randint(-3,3))]) for _ in range(n)], np.nan), dtype='float64')
    if kind=='bool':
        return kind, pd.Series([rng.random()<0.5 for _ in range(n)], dtype=bool)
    if kind=='boolobj':
        return kind, pd.Series(nullify([rng.random()<0.5 for _ in range(n)], None), dtype=object)
    if kind=='boolean':
        return kind, pd.Series(pd.array(nullify([rng.random()<0.5 for _ in range(n)], None), dtype='boolean'))
    if kind=='strobj':
        pool=[rstr() for _ in range(rng.choice([1,2,5,20,21,30]))]
        return kind, pd.Series(nullify([rng.choice(pool) for _ in range(n)], rng.choice([None,np.nan])), dtype=object)
    if kind=='cat':
        pool=list({rstr() for _ in range(rng.choice([1,2,5,25]))})
        return kind, pd.Series(pd.Categorical(nullify([rng.choice(pool) for _ in range(n)], None), categories=pool))
    if kind=='dt':
        unit=rng.choice(['s','ms','us','ns'])
        vals=[pd.Timestamp(rng.randint(-2*10**9, 4*10**9), unit='s') + pd.Timedelta(rng.choice([0,0,1,123456789]), unit='ns') for _ in range(n)]
        return kind+unit, pd.Series(nullify(vals, pd.NaT)).astype('datetime64[%s]'%unit) if n else pd.Series([],dtype='datetime64[%s]'%unit)
    if kind=='dttz':
        vals=[pd.Timestamp(rng.randint(0, 2*10**9), unit='s', tz=rng.choice(['UTC','Europe/London'])) for _ in range(n)]
        return kind, pd.Series(vals, dtype='datetime64[ns, UTC]') if n else pd.Series([],dtype='datetime64[ns, UTC]')
    if kind=='dateobj':
        return kind, pd.Series(nullify([datetime.date(rng.randint(1,9999), rng.randint(1,12), rng.randint(1,28)) for _ in range(n)], None), dtype=object)
res = collections.Counter()
wit = {}
for it in range(int(sys.argv[2]) if len(sys.argv)>2 else 300):
    n = rng.choice([0,1,2,3,5,30])
    kind, col = gen_col(n)
    name = rng.choice(['a','b c','é','x_min_ok','0','a.b','"q"'])
    df = pd.DataFrame({name: col})
    for rex in (False, True):
      for repair in (True, False):
        key=None
        err = io.StringIO()
        try:
            with contextlib.redirect_stderr(err), contextlib.redirect_stdout(err):
                c = discover_df(df.copy(), inc_rex=rex)
                if c is None:
                    key=(kind,'nothing discovered'); 
                else:
                    d = json.loads(c.to_json())
                    v = verify_df(df.copy(), d, repair=repair)
                    det = detect_df(df.copy(), d, repair=repair)
                    if v.failures:
                        key=(kind,'verify-fail',tuple(sorted(k for f,r in v.fields.items() for k,s in r.items() if not s)), 'repair' if repair else 'norepair')
                    elif det.failures or det.detection is not None:
                        key=(kind,'detect-fail')
                    else: key=(kind,'ok')
        except Exception as e:
            tb = traceback.extract_tb(e.__traceback__)
            loc = [f for f in tb if '/repo/' in f.filename][-1]
            key=(kind,'EXC',type(e).__name__, '%s:%d'%(loc.filename.split('/repo/')[1],loc.lineno), 'rex' if rex else '', 'repair' if repair else 'norepair')
        res[key]+=1
        if key not in wit: wit[key]=(df[name].tolist()[:6], str(df[name].dtype), n)
for k,v in sorted(res.items(), key=str):
    if k[1]!='ok': print(v,k, wit[k])
print(sum(v for k,v in res.items() if k[1]=='ok'),'ok of',sum(res.values()))

import sys, re, random, collections, traceback, io, contextlib
sys.path.insert(0, __import__('os').environ.get('VT_REPO','/repo'))
from tdda.rexpy import extract, Extractor
from tdda.rexpy.rexpy import Size
rng = random.Random(int(sys.argv[1]))
N = int(sys.argv[2])
ALPH = list('abzAZ019 -^.*()[]\\$+?|{}"\'_,:/#!~&=<>;@%`') + ['é','日','\t','\n','\r','\x0b','\x85','\xa0','Ⅷ','ß','\x00','ǅ','İ']
FLAGS = re.UNICODE | re.DOTALL
def rstr(alph):
    return ''.join(rng.choice(alph) for _ in range(rng.randint(0,7)))
res = collections.Counter(); wit={}
def note(key, w):
    res[key]+=1
    if key not in wit: wit[key]=w
for it in range(N):
    alph = rng.sample(ALPH, rng.randint(1, 8)) if rng.random()<0.7 else ALPH
    xs = [rstr(alph) for _ in range(rng.choice([1,2,3,5,12,40]))]
    if rng.random()<0.5: xs = xs + rng.choices(xs, k=rng.randint(1,5))
    kw = dict(strip=rng.random()<0.2, remove_empties=rng.random()<0.3,
              extra_letters=rng.choice([None,None,'_','-','.','_-','_.-']),
              variableLengthFrags=rng.random()<0.3, dialect=rng.choice(['perl','portable','grep']))
    if rng.random()<0.3:
        kw['max_patterns']=rng.choice([1,2,3]);
    if rng.random()<0.3:
        kw['min_strings_per_pattern']=rng.choice([1,2,3])
    try:
        with contextlib.redirect_stdout(io.StringIO()):
            r0 = extract(list(xs), tag=False, **kw)
            r1 = extract(list(xs), tag=True, **kw)
            ys = list(xs); rng.shuffle(ys)
            r2 = extract(ys, tag=False, **kw)
            r3 = extract(dict(collections.Counter(xs)), tag=False, **kw)
            r4 = extract(list(set(xs)), tag=False, **kw)
            x = extract(list(xs), as_object=True, **kw)
        note('n',0)
        if r2 != r0: note(('order-dependent',), (xs, ys, kw, r0, r2))
        if r3 != r0: note(('dict-differs',), (xs, kw, r0, r3))
        if r4 != r0 and 'min_strings_per_pattern' not in kw and 'max_patterns' not in kw: note(('dup-sensitive',), (xs, kw, r0, r4))
        targets = [s.strip() if kw['strip'] else s for s in xs]
        targets = [s for s in targets if not (kw['remove_empties'] and s=='')]
        if len(r0)!=len(r1): note(('tag-count',),(xs,kw,r0,r1))
        else:
            for a,b in zip(r0,r1):
                try:
                    ca, cb = re.compile(a,FLAGS), re.compile(b,FLAGS)
                except re.error as e:
                    note(('uncompilable',),(xs,kw,a,b)); continue
                if not (a.startswith('^') and a.endswith('$')): note(('unanchored',),(xs,kw,a))
                ma = {s for s in targets if re.match(ca,s)}; mb={s for s in targets if re.match(cb,s)}
                if ma!=mb: note(('tag-matchset',),(xs,kw,a,b, ma^mb))
                if not ma: note(('useless',),(xs,kw,a,r0))
        if len(set(r0))!=len(r0): note(('dup',),(xs,kw,r0))
        if len(r0)>len(set(targets)): note(('too-many',),(xs,kw,r0))
        # coverage
        if x.results:
            for dedup in (False, True):
                cov = x.coverage(dedup=dedup)
                cnt = collections.Counter(targets)
                exp = [sum((1 if dedup else n) for s,n in cnt.items() if re.match(re.compile(r,FLAGS), s)) for r in x.results.rex]
                if cov != exp: note(('coverage-wrong',dedup),(xs,kw,x.results.rex,cov,exp))
                ic = x.incremental_coverage(dedup=dedup)
                vals = list(ic.values())
                total = len(cnt) if dedup else sum(cnt.values())
                matched_total = sum((1 if dedup else n) for s,n in cnt.items() if any(re.match(re.compile(r,FLAGS), s) for r in x.results.rex))
                if sum(vals)!=total: note(('incr-sum!=total', dedup, 'allmatched' if matched_total==total else 'some-unmatched', tuple(sorted(k for k in kw if k in('max_patterns','min_strings_per_pattern')))),(xs,kw,ic,total))
                if vals != sorted(vals, reverse=True): note(('incr-not-sorted',dedup),(xs,kw,ic))
            if x.n_examples()!=len(targets): note(('n_examples',),(xs,kw,x.n_examples(),len(targets)))
            if x.n_examples(dedup=True)!=len(set(targets)): note(('n_examples_dedup',),(xs,kw))
    except Exception as e:
        tb = traceback.extract_tb(e.__traceback__)
        loc = [f for f in tb if '/repo/' in f.filename][-1]
        note(('EXC',type(e).__name__, '%s:%d'%(loc.filename.split('/repo/')[1],loc.lineno)), (xs,kw,str(e)))
for k,v in sorted(res.items(), key=str):
    print(v,k)
    if k!='n': print('    ', str(wit[k])[:1200])

import sys, warnings, datetime, json, traceback, random, io, contextlib, collections, math, re
sys.path.insert(0,'/repo')
import numpy as np, pandas as pd
from tdda.constraints import verify_df, detect_df
warnings.simplefilter('ignore')
rng = random.Random(int(sys.argv[1])); N=int(sys.argv[2])
def isnull(v): return v is None or (isinstance(v,float) and math.isnan(v)) or v is pd.NaT or v is pd.NA
def gen():
    n=rng.choice([0,1,2,4,6]); kind=rng.choice(['int','float','bool','str','date','Int64','boolobj'])
    p=rng.choice([0,0,0.3,1.0])
    if kind in('int','Int64'): vals=[rng.randint(-3,3) for _ in range(n)]
    elif kind=='float': vals=[rng.choice([0.0,1.0,-1.0,2.5,-2.5,100.0,-100.0,float(rng.randint(-3,3))]) for _ in range(n)]
    elif kind in('bool','boolobj'): vals=[rng.random()<0.5 for _ in range(n)]
    elif kind=='str': vals=[rng.choice(['','a','bb','ccc','a1','B2','é']) for _ in range(n)]
    else: vals=[datetime.datetime(2020,1,rng.randint(1,5)) for _ in range(n)]
    if kind in ('int','bool'): pyvals=vals; ser=pd.Series(vals,dtype='int64' if kind=='int' else bool)
    else:
        pyvals=[None if rng.random()<p else v for v in vals]
        if kind=='float': ser=pd.Series([np.nan if v is None else v for v in pyvals],dtype='float64')
        elif kind=='Int64': ser=pd.Series(pd.array(pyvals,dtype='Int64'))
        elif kind=='date': ser=pd.Series(pd.to_datetime(pyvals)) if n else pd.Series([],dtype='datetime64[ns]')
        else: ser=pd.Series(pyvals,dtype=object)
    return kind, pyvals, ser
def tdda_type(kind, pyvals):
    if kind in('int','Int64'): return 'int'
    if kind=='float': return 'real'
    if kind=='bool': return 'bool'
    if kind=='boolobj': return 'bool' if any(v is not None for v in pyvals) else 'string'
    if kind=='str': return 'string'
    return 'date'
def oracle(kind, pyvals, ckind, cval, prec, eps, tc):
    nn=[v for v in pyvals if v is not None]
    T=tdda_type(kind,pyvals)
    if cval is None: return True
    if ckind=='type':
        allowed=cval if isinstance(cval,list) else [cval]
        if T in allowed: return True
        if tc=='strict': return False
        if T=='real' and ('int' in allowed or 'bool' in allowed): return all(float(v).is_integer() for v in nn)
        if T=='string' and 'bool' in allowed: return None  # unspecified
        return False
    if ckind in('min','max'):
        if not nn: return True
        if T=='string': return None
        num = T in('int','real','bool')
        cnum = isinstance(cval,(int,float)) and not isinstance(cval,bool)
        if num!=cnum: return None if isinstance(cval,bool) else False
        if T=='date': cv=datetime.datetime.fromisoformat(cval) if isinstance(cval,str) else cval; prec='closed'
        else: cv=cval
        m=min(nn) if ckind=='min' else max(nn)
        if prec=='closed': return m>=cv if ckind=='min' else m<=cv
        if prec=='open': return m>cv if ckind=='min' else m<cv
        b = cv-eps*abs(cv) if ckind=='min' else cv+eps*abs(cv)
        if eps and abs(m-b)<1e-9*max(1,abs(b)): return None
        return m>=b if ckind=='min' else m<=b
    if ckind=='sign':
        if not nn: return True
        if T not in('int','real','bool'): return False
        return {'positive':all(v>0 for v in nn),'non-negative':all(v>=0 for v in nn),'zero':all(v==0 for v in nn),'non-positive':all(v<=0 for v in nn),'negative':all(v<0 for v in nn),'null':False}[cval]
    if ckind in('min_length','max_length'):
        if T!='string': return False
        if not nn: return True
        return min(len(v) for v in nn)>=cval if ckind=='min_length' else max(len(v) for v in nn)<=cval
    if ckind=='max_nulls': return sum(v is None for v in pyvals)<=cval
    if ckind=='no_duplicates':
        if cval is False: return True
        return len(set(nn))==len(nn)
    if ckind=='allowed_values': return set(nn)<=set(cval)
    if ckind=='rex':
        if T!='string': return False
        return all(any(re.match(r,v) for r in cval) for v in nn)
res=collections.Counter(); wit={}
for it in range(N):
    kind,pyvals,ser=gen()
    df=pd.DataFrame({'x':ser})
    eps=rng.choice([None,0,0.01,0.5]); tc=rng.choice([None,'strict','sloppy'])
    cons={}
    for ck in rng.sample(['type','min','max','sign','min_length','max_length','max_nulls','no_duplicates','allowed_values','rex'], rng.randint(1,5)):
        if ck=='type': v=rng.choice(['int','real','bool','string','date',['int','real'],['bool','int'],None])
        elif ck in('min','max'):
            if kind=='date': v=rng.choice(['2020-01-0%d'%rng.randint(1,5), '2020-01-03 00:00:00', None])
            else: v=rng.choice([rng.randint(-3,3), float(rng.randint(-3,3)), 2.5, -2.5, 0, None, 99.0, -101.0])
            pr=rng.choice([None,'open','closed','fuzzy'])
            if pr: v={'value':v,'precision':pr}
        elif ck=='sign': v=rng.choice(['positive','non-negative','zero','non-positive','negative','null',None])
        elif ck in('min_length','max_length'): v=rng.choice([0,1,2,3,None])
        elif ck=='max_nulls': v=rng.choice([0,1,2,None])
        elif ck=='no_duplicates': v=rng.choice([True,True,False,None])
        elif ck=='allowed_values': v=rng.choice([['a','bb'],['','a','bb','ccc','a1','B2','é'],[],None])
        else: v=rng.choice([['^[a-z]*$'],['^.+$'],['^$','^[a-z]+\\d$'],None])
        cons[ck]=v
    d={'fields':{'x':cons}}
    kw={}
    if eps is not None: kw['epsilon']=eps
    if tc: kw['type_checking']=tc
    err=io.StringIO()
    try:
        with contextlib.redirect_stderr(err), contextlib.redirect_stdout(err):
            v=verify_df(df.copy(), d, repair=False, **kw)
            dv=detect_df(df.copy(), d, repair=False, per_constraint=True, write_all=True, **kw)
    except Exception as e:
        tb=traceback.extract_tb(e.__traceback__); loc=[f for f in tb if '/repo/' in f.filename][-1]
        key=('EXC',type(e).__name__,'%s:%d'%(loc.filename.split('/repo/')[1],loc.lineno), kind)
        res[key]+=1; wit.setdefault(key,(pyvals,d,kw,str(e)[:100])); continue
    for ck,cv in cons.items():
        prec=None; val=cv
        if isinstance(cv,dict): prec=cv['precision']; val=cv['value']
        want=oracle(kind,pyvals,ck,val,prec or 'fuzzy',eps or 0,tc or 'sloppy')
        got=bool(v.fields['x'][ck])
        got2=bool(dv.fields['x'][ck])
        if got!=got2: key=('verify!=detect',ck,kind); res[key]+=1; wit.setdefault(key,(pyvals,d,kw))
        if want is None: res['unspec']+=1
        elif want==got: res['agree']+=1
        else:
            key=('VERDICT',ck,kind,'want=%s got=%s'%(want,got), 'prec=%s'%prec if ck in('min','max') else '')
            res[key]+=1; wit.setdefault(key,(pyvals,str(ser.dtype),{ck:cv},kw))
    if v.passes!=sum(1 for s in v.fields['x'].values() if s) or v.failures!=sum(1 for s in v.fields['x'].values() if not s): res[('COUNTS',)]+=1
for k,vv in sorted(res.items(),key=str):
    print(vv,k)
    if not isinstance(k,str): print('    ',str(wit.get(k))[:300])

#!/venv/bin/python
"""seed_intake.py <Cxx> [<suffix>]: confirm a sub-agent's seeded change independently and file it
under seeded/<Cxx>-<suffix>/ (patch.diff, demo.py, notes.md, meta.json).
Confirms, on scratch copies of /repo outside /repo and /verif: the patch applies to the clean tree; the
repository's 218 stable tests still pass with it; demo.py exits 0 on the clean tree and non-zero with it."""
import json, os, shutil, subprocess, sys
prop = sys.argv[1]
suffix = sys.argv[2] if len(sys.argv) > 2 else 'a'
src = os.path.join(os.environ.get('SEED_SRC', '/tmp/seed-out'), prop)
dst = '/verif/seeded/%s-%s' % (prop, suffix)
work = '/var/tmp/vt-intake-%d' % os.getpid()
def run(cmd, **kw):
    return subprocess.run(cmd, stdout=subprocess.PIPE, stderr=subprocess.STDOUT, universal_newlines=True, **kw)
try:
    os.makedirs(work)
    clean, changed = work + '/clean', work + '/changed'
    for d in (clean, changed):
        run(['rsync', '-a', '--exclude', '.git', '/repo/', d + '/'])
    r = run(['patch', '-p1', '--no-backup-if-mismatch', '-i', src + '/patch.diff'], cwd=changed)
    res = {'patch_applies': r.returncode == 0}
    if r.returncode == 0:
        b = run(['/verif/baseline.sh', changed])
        res['baseline_line'] = b.stdout.strip().splitlines()[-1] if b.stdout.strip() else ''
        res['baseline_ok'] = b.returncode == 0
        for name, tree in (('demo_on_clean', clean), ('demo_on_changed', changed)):
            d = run(['/venv/bin/python', '-W', 'ignore', src + '/demo.py'], env=dict(os.environ, PYTHONPATH=tree), cwd=work)
            res[name] = d.returncode
            res[name + '_tail'] = d.stdout[-300:]
    ok = res.get('patch_applies') and res.get('baseline_ok') and res.get('demo_on_clean') == 0 and res.get('demo_on_changed', 0) != 0
    print(json.dumps(res, indent=1))
    print('CONFIRMED' if ok else 'NOT CONFIRMED')
    if ok:
        os.makedirs(dst, exist_ok=True)
        for f in ('patch.diff', 'demo.py', 'notes.md'):
            shutil.copy(os.path.join(src, f), os.path.join(dst, f))
        meta = {'property': prop, 'source': 'independent sub-agent given only the property text and a scratch worktree',
                'needs_to_manifest': open(src + '/notes.md').read()[:1500],
                'confirmed': {'patch_applies_to_clean_tree': True, 'baseline': res['baseline_line'],
                              'demo_exit_on_clean_tree': 0, 'demo_exit_with_change': res['demo_on_changed']},
                'ran': ['patch -p1 on an rsync copy of /repo', './baseline.sh <copy>', 'PYTHONPATH=<copy> /venv/bin/python demo.py (clean and changed)'],
                'demo': 'demo.py'}
        json.dump(meta, open(os.path.join(dst, 'meta.json'), 'w'), indent=1)
finally:
    shutil.rmtree(work, ignore_errors=True)
